(* ProcessSetProofs.v — proofs about the ProcessSet model.
   Part 1 (any Num, no hypothesis on the operations): what each logical slot of the output
   holds after AddForcingTerms / SubtractJacobianTerms, for every layout.
   Part 2 (commutative ring): that slot value is the mass-action sum / its derivative. *)
From Model Require Import Base BaseProofs Dense DenseProofs Sparse ProcessSetM.
From Coq Require Import Ring.
Local Open Scope nat_scope.

Section AnyNum.
  Variable N : Num.
  Notation T := (T N).
  Notation op := (op N).

  (* ---------- sequential updates seen from one slot ---------- *)
  Definition slot_apply (a : nat) (ops : list op) (v : T) : T :=
    fold_left (fun v o => if fst o =? a then snd o v else v) ops v.

  Lemma slot_apply_app a l1 l2 v : slot_apply a (l1 ++ l2) v = slot_apply a l2 (slot_apply a l1 v).
  Proof. unfold slot_apply; apply fold_left_app. Qed.

  Lemma slot_apply_flat_map {X} a (F : X -> list op) (l : list X) v :
    slot_apply a (flat_map F l) v = fold_left (fun v x => slot_apply a (F x) v) l v.
  Proof.
    revert v; induction l as [|x l IH]; intros v; simpl; auto.
    rewrite slot_apply_app. apply IH.
  Qed.

  Lemma slot_apply_miss a ops v : (forall o, In o ops -> fst o <> a) -> slot_apply a ops v = v.
  Proof.
    revert v; induction ops as [|o ops IH]; intros v H; simpl; auto.
    destruct (Nat.eqb_spec (fst o) a) as [E|NE]; [exfalso; apply (H o); simpl; auto|].
    apply IH. intros o' Ho'. apply H; simpl; auto.
  Qed.

  Lemma run_ops_length ops f : length (run_ops N ops f) = length f.
  Proof.
    revert f; induction ops as [|o ops IH]; intros f; simpl; auto.
    unfold run_ops in *; simpl. rewrite IH. apply modify_length.
  Qed.

  Lemma run_ops_nth a ops f :
    a < length f -> nth a (run_ops N ops f) (n0 N) = slot_apply a ops (nth a f (n0 N)).
  Proof.
    revert f; induction ops as [|o ops IH]; intros f Ha; simpl; auto.
    unfold run_ops in *; simpl. rewrite IH by (rewrite modify_length; auto).
    f_equal. unfold modify. rewrite nth_upd.
    destruct (Nat.eqb_spec (fst o) a) as [->|NE]; simpl; auto.
    destruct (Nat.ltb_spec a (length f)); [reflexivity|lia].
  Qed.

  Lemma fold_left_ext_in {A B} (f g : A -> B -> A) l a :
    (forall a b, In b l -> f a b = g a b) -> fold_left f l a = fold_left g l a.
  Proof.
    revert a; induction l as [|b l IH]; intros a H; simpl; auto.
    rewrite H by (simpl; auto). apply IH. intros; apply H; simpl; auto.
  Qed.

  Lemma fold_left_id {A B} (f : A -> B -> A) l a :
    (forall a b, In b l -> f a b = a) -> fold_left f l a = a.
  Proof.
    revert a; induction l as [|b l IH]; intros a H; simpl; auto.
    rewrite H by (simpl; auto). apply IH. intros; apply H; simpl; auto.
  Qed.

  Lemma rate_of_ext k rs (y1 y2 : nat -> T) :
    (forall id, In id rs -> y1 id = y2 id) -> rate_of N k rs y1 = rate_of N k rs y2.
  Proof.
    unfold rate_of. intros H. apply fold_left_ext_in. intros a b Hb. rewrite H; auto.
  Qed.

  (* ---------- what one reaction does to the slot of species s ---------- *)
  Definition rxn_slot (s : nat) (rate : T) (rx : rrxn N) (v : T) : T :=
    let v1 := fold_left (fun v id => if id =? s then nsub N v rate else v) (fst rx) v in
    fold_left (fun v (p : nat * T) => if fst p =? s then nadd N v (nmul N (snd p) rate) else v) (snd rx) v1.

  (* k i = rate constant of reaction i in this cell ; y id = concentration of species id *)
  Definition forcing_slot (rxns : list (rrxn N)) (k : nat -> T) (y : nat -> T) (s : nat) (v0 : T) : T :=
    fold_left (fun v (irx : nat * rrxn N) =>
                 rxn_slot s (rate_of N (k (fst irx)) (fst (snd irx)) y) (snd irx) v)
              (combine (seq 0 (length rxns)) rxns) v0.

  (* all species ids used by the tables are below nspec *)
  Definition rxns_ids_lt (rxns : list (rrxn N)) (nspec : nat) : Prop :=
    forall rx, In rx rxns ->
      (forall id, In id (fst rx) -> id < nspec) /\ (forall p, In p (snd rx) -> fst p < nspec).

  (* a storage vector represents a logical matrix in a layout *)
  Definition represents (ly : layout) (nrow ncol : nat) (data : list T) (M : nat -> nat -> T) : Prop :=
    length data = lay_size ly nrow ncol /\
    forall r c, r < nrow -> c < ncol -> nth (lay_addr ly ncol r c) data (n0 N) = M r c.

  (* generic: ops built from a list of ids, all at addresses addr id, hit slot addr s exactly at id = s *)
  Lemma slot_react_ops (addr : nat -> nat) s g (rs : list nat) v nspec :
    s < nspec -> (forall id, In id rs -> id < nspec) ->
    (forall id, id < nspec -> addr id = addr s -> id = s) ->
    slot_apply (addr s) (map (fun id => (addr id, g)) rs) v =
    fold_left (fun v id => if id =? s then g v else v) rs v.
  Proof.
    intros Hs Hrs Hinj. revert v; induction rs as [|id rs IH]; intros v; simpl; auto.
    rewrite <- IH by (intros; apply Hrs; simpl; auto).
    f_equal. destruct (Nat.eqb_spec id s) as [->|NE].
    - rewrite Nat.eqb_refl; reflexivity.
    - destruct (Nat.eqb_spec (addr id) (addr s)) as [E|_]; auto.
      exfalso; apply NE, Hinj; auto. apply Hrs; simpl; auto.
  Qed.

  Lemma slot_prod_ops (addr : nat -> nat) s (g : T -> T -> T) (ps : list (nat * T)) v nspec :
    s < nspec -> (forall p, In p ps -> fst p < nspec) ->
    (forall id, id < nspec -> addr id = addr s -> id = s) ->
    slot_apply (addr s) (map (fun '(id, yl) => (addr id, g yl)) ps) v =
    fold_left (fun v (p : nat * T) => if fst p =? s then g (snd p) v else v) ps v.
  Proof.
    intros Hs Hps Hinj. revert v; induction ps as [|[id yl] ps IH]; intros v; simpl; auto.
    rewrite <- IH by (intros; apply Hps; simpl; auto).
    f_equal. destruct (Nat.eqb_spec id s) as [->|NE].
    - rewrite Nat.eqb_refl; reflexivity.
    - destruct (Nat.eqb_spec (addr id) (addr s)) as [E|_]; auto.
      exfalso; apply NE, Hinj; auto. apply (Hps (id, yl)); simpl; auto.
  Qed.

  (* ---------- row-major AddForcingTerms ---------- *)
  Section ForcingRM.
    Variable p : pstab N.
    Variables ncells nspec nrxn : nat.
    Variables rc y f : list T.
    Variables K Y F0 : nat -> nat -> T.
    Hypothesis Hids : rxns_ids_lt (ps_rxns N p) nspec.
    Hypothesis Hnr : length (ps_rxns N p) <= nrxn.
    Hypothesis Hrc : represents RowMajor ncells nrxn rc K.
    Hypothesis Hy : represents RowMajor ncells nspec y Y.
    Hypothesis Hf : represents RowMajor ncells nspec f F0.

    Lemma forcing_rm_slot c s :
      c < ncells -> s < nspec ->
      nth (rm_addr nspec c s) (add_forcing N RowMajor p ncells nspec nrxn rc y f) (n0 N) =
      forcing_slot (ps_rxns N p) (K c) (Y c) s (F0 c s).
    Proof.
      intros Hc Hs. simpl. destruct Hf as [Hlen Hfv].
      rewrite run_ops_nth by (rewrite Hlen; apply rm_addr_range; auto).
      pose proof (Hfv c s Hc Hs) as Efv; simpl in Efv; rewrite Efv; clear Efv. unfold forcing_ops_rm.
      rewrite slot_apply_flat_map.
      (* only cell c contributes *)
      assert (Hcells : forall l v, NoDup l -> (forall c', In c' l -> c' < ncells) ->
        fold_left (fun v c' => slot_apply (rm_addr nspec c s)
          (flat_map (fun '(i, (rs, ps)) =>
             let rate := rate_of N (nth (rm_addr nrxn c' i) rc (n0 N)) rs
                                 (fun id => nth (rm_addr nspec c' id) y (n0 N)) in
             map (fun id => (rm_addr nspec c' id, fun v => nsub N v rate)) rs ++
             map (fun '(id, yl) => (rm_addr nspec c' id, fun v => nadd N v (nmul N yl rate))) ps)
             (combine (seq 0 (length (ps_rxns N p))) (ps_rxns N p))) v) l v =
        if in_dec Nat.eq_dec c l then forcing_slot (ps_rxns N p) (K c) (Y c) s v else v).
      { induction l as [|c' l IH]; intros v Hnd Hl; [reflexivity|].
        inversion Hnd as [|? ? Hnotin Hnd']; subst. cbn [fold_left].
        rewrite IH by (auto; intros; apply Hl; simpl; auto).
        destruct (Nat.eq_dec c' c) as [->|NE].
        - (* the cell itself *)
          destruct (in_dec Nat.eq_dec c l) as [Hin|_]; [tauto|].
          destruct (in_dec Nat.eq_dec c (c :: l)) as [_|Hn]; [|exfalso; apply Hn; simpl; auto].
          rewrite slot_apply_flat_map. unfold forcing_slot.
          apply fold_left_ext_in. intros v' [i [rs ps]] Hin.
          assert (Hrx : In (rs, ps) (ps_rxns N p)) by (apply in_combine_r in Hin; auto).
          assert (Hi : i < nrxn).
          { apply in_combine_l in Hin. rewrite in_seq in Hin. lia. }
          destruct (Hids _ Hrx) as [Hr Hp]. simpl in Hr, Hp.
          cbn [fst snd]. rewrite slot_apply_app.
          pose proof Hrc as [_ Hrcv]. pose proof Hy as [_ Hyv]. simpl in Hrcv, Hyv.
          rewrite (Hrcv c i Hc Hi).
          rewrite (rate_of_ext _ rs _ (Y c)) by (intros id Hid; apply Hyv; auto).
          unfold rxn_slot. cbn [fst snd].
          rewrite (slot_react_ops (rm_addr nspec c) s _ rs _ nspec); auto;
            [|intros id Hid E; apply (rm_addr_inj nspec c id c s) in E; tauto].
          rewrite (slot_prod_ops (rm_addr nspec c) s (fun yl v => nadd N v (nmul N yl _)) ps _ nspec); auto.
          intros id Hid E; apply (rm_addr_inj nspec c id c s) in E; tauto.
        - (* another cell never touches the slot *)
          destruct (in_dec Nat.eq_dec c l) as [Hin|Hnin];
            destruct (in_dec Nat.eq_dec c (c' :: l)) as [Hin'|Hnin']; simpl in *; try tauto.
          + f_equal. apply slot_apply_miss. intros o Ho.
            rewrite in_flat_map in Ho. destruct Ho as [[i [rs ps]] [Hin2 Ho]].
            assert (Hrx : In (rs, ps) (ps_rxns N p)) by (apply in_combine_r in Hin2; auto).
            destruct (Hids _ Hrx) as [Hr Hp]. simpl in Hr, Hp.
            rewrite in_app_iff, !in_map_iff in Ho.
            destruct Ho as [[id [<- Hid]]|[[id yl] [<- Hid]]]; simpl; intros E;
              apply rm_addr_inj in E; auto; try tauto.
            apply (Hp (id, yl)); auto.
          + apply slot_apply_miss. intros o Ho.
            rewrite in_flat_map in Ho. destruct Ho as [[i [rs ps]] [Hin2 Ho]].
            assert (Hrx : In (rs, ps) (ps_rxns N p)) by (apply in_combine_r in Hin2; auto).
            destruct (Hids _ Hrx) as [Hr Hp]. simpl in Hr, Hp.
            rewrite in_app_iff, !in_map_iff in Ho.
            destruct Ho as [[id [<- Hid]]|[[id yl] [<- Hid]]]; simpl; intros E;
              apply rm_addr_inj in E; auto; try tauto.
            apply (Hp (id, yl)); auto. }
      rewrite Hcells; [|apply seq_NoDup|intros c' Hc'; rewrite in_seq in Hc'; lia].
      destruct (in_dec Nat.eq_dec c (seq 0 ncells)) as [_|Hn]; [reflexivity|].
      exfalso; apply Hn; rewrite in_seq; lia.
    Qed.
  End ForcingRM.

  (* ---------- helpers for the grouped layout ---------- *)
  Lemma fold_only_one {X} (eq_dec : forall a b : X, {a = b} + {a <> b}) (F : X -> T -> T) (x0 : X) l v :
    NoDup l -> (forall x, In x l -> x <> x0 -> forall v, F x v = v) ->
    fold_left (fun v x => F x v) l v = if in_dec eq_dec x0 l then F x0 v else v.
  Proof.
    revert v; induction l as [|x l IH]; intros v Hnd H; [reflexivity|].
    inversion Hnd as [|? ? Hnotin Hnd']; subst. cbn [fold_left].
    rewrite IH by (auto; intros; apply H; simpl; auto).
    destruct (eq_dec x x0) as [->|NE].
    - destruct (in_dec eq_dec x0 l); [tauto|].
      destruct (in_dec eq_dec x0 (x0 :: l)) as [_|Hn]; [reflexivity|exfalso; apply Hn; simpl; auto].
    - rewrite (H x) by (simpl; auto).
      destruct (in_dec eq_dec x0 l) as [Hin|Hnin];
        destruct (in_dec eq_dec x0 (x :: l)) as [Hin'|Hnin']; simpl in *; try tauto;
        try (destruct Hin'; [congruence|tauto]).
  Qed.

  Lemma slot_lanes a base (G : nat -> T -> T) L v :
    slot_apply a (map (fun lane => (base + lane, G lane)) (seq 0 L)) v =
    if (base <=? a) && (a <? base + L) then G (a - base) v else v.
  Proof.
    revert v; induction L as [|L IH]; intros v.
    - simpl. destruct (base <=? a) eqn:E1; simpl; auto.
      destruct (Nat.ltb_spec a (base + 0)); auto. apply Nat.leb_le in E1. lia.
    - rewrite seq_S, map_app, slot_apply_app, IH. cbn [map slot_apply fold_left fst snd plus].
      destruct (Nat.leb_spec base a) as [H1|H1]; cbn [andb].
      + destruct (Nat.ltb_spec a (base + L)) as [H2|H2];
          destruct (Nat.ltb_spec a (base + S L)) as [H3|H3];
          destruct (Nat.eqb_spec (base + L) a) as [H4|H4]; try lia; auto.
        replace (a - base) with L by lia. reflexivity.
      + destruct (Nat.eqb_spec (base + L) a) as [H4|H4]; try lia; auto.
  Qed.

  Lemma vm_addr_alt L ncol c j : vm_addr L ncol c j = (c / L) * (L * ncol) + j * L + c mod L.
  Proof. unfold vm_addr. ring. Qed.

  (* ---------- grouped AddForcingTerms ---------- *)
  Section ForcingVec.
    Variable L : nat.
    Hypothesis HL : 0 < L.
    Variable p : pstab N.
    Variables ncells nspec nrxn : nat.
    Variables rc y f : list T.
    Variables K Y F0 : nat -> nat -> T.
    Hypothesis Hids : rxns_ids_lt (ps_rxns N p) nspec.
    Hypothesis Hnr : length (ps_rxns N p) <= nrxn.
    Hypothesis Hrc : represents (Grouped L) ncells nrxn rc K.
    Hypothesis Hy : represents (Grouped L) ncells nspec y Y.
    Hypothesis Hf : represents (Grouped L) ncells nspec f F0.

    (* the ops of one id over all lanes of group g, seen from slot (c, s) with c in group g *)
    Lemma lanes_hit c s id (G : nat -> T -> T) v :
      s < nspec -> id < nspec ->
      slot_apply (vm_addr L nspec c s)
        (map (fun lane => ((c / L) * (L * nspec) + id * L + lane, G lane)) (seq 0 L)) v =
      if id =? s then G (c mod L) v else v.
    Proof.
      intros Hs Hid. rewrite slot_lanes, vm_addr_alt.
      pose proof (Nat.mod_upper_bound c L ltac:(lia)) as Hl.
      set (off := c / L * (L * nspec)). set (l := c mod L) in *.
      destruct (Nat.eqb_spec id s) as [->|NE].
      - destruct (Nat.leb_spec (off + s * L) (off + s * L + l)); [|lia].
        destruct (Nat.ltb_spec (off + s * L + l) (off + s * L + L)); [|lia].
        cbn [andb]. replace (off + s * L + l - (off + s * L)) with l by lia. reflexivity.
      - destruct (Nat.leb_spec (off + id * L) (off + s * L + l)) as [H1|H1]; cbn [andb]; auto.
        destruct (Nat.ltb_spec (off + s * L + l) (off + id * L + L)) as [H2|H2]; auto.
        exfalso. assert (id * L <= s * L + l) by lia. assert (s * L + l < id * L + L) by lia.
        assert (id <= s) by nia. assert (s <= id) by nia. lia.
    Qed.

    Lemma forcing_vec_slot c s :
      c < ncells -> s < nspec ->
      nth (vm_addr L nspec c s) (add_forcing N (Grouped L) p ncells nspec nrxn rc y f) (n0 N) =
      forcing_slot (ps_rxns N p) (K c) (Y c) s (F0 c s).
    Proof.
      intros Hc Hs. cbn [add_forcing]. pose proof Hf as [Hlen Hfv]. simpl in Hlen, Hfv.
      pose proof Hrc as [_ Hrcv]. pose proof Hy as [_ Hyv]. simpl in Hrcv, Hyv.
      rewrite run_ops_nth by (rewrite Hlen; apply vm_addr_range; auto).
      rewrite (Hfv c s Hc Hs). unfold forcing_ops_vec.
      rewrite slot_apply_flat_map.
      pose proof (Nat.mod_upper_bound c L ltac:(lia)) as Hl.
      rewrite (fold_only_one Nat.eq_dec _ (c / L)); [| apply seq_NoDup |].
      - destruct (in_dec Nat.eq_dec (c / L) (seq 0 (vm_groups L ncells))) as [_|Hn].
        2:{ exfalso; apply Hn; rewrite in_seq. split; [lia|]. apply ceil_div_gt; auto. }
        rewrite slot_apply_flat_map. unfold forcing_slot.
        apply fold_left_ext_in. intros v' [i [rs ps]] Hin.
        assert (Hrx : In (rs, ps) (ps_rxns N p)) by (apply in_combine_r in Hin; auto).
        assert (Hi : i < nrxn) by (apply in_combine_l in Hin; rewrite in_seq in Hin; lia).
        destruct (Hids _ Hrx) as [Hr Hp]. simpl in Hr, Hp.
        cbn [fst snd]. rewrite slot_apply_app. unfold rxn_slot. cbn [fst snd].
        rewrite !slot_apply_flat_map.
        (* the rate of lane c mod L is the rate of cell c *)
        assert (Erate :
          rate_of N (nth (c / L * (L * nrxn) + i * L + c mod L) rc (n0 N)) rs
                  (fun id => nth (c / L * (L * nspec) + id * L + c mod L) y (n0 N)) =
          rate_of N (K c i) rs (Y c)).
        { rewrite <- vm_addr_alt, (Hrcv c i Hc Hi).
          apply rate_of_ext. intros id Hid. rewrite <- vm_addr_alt. apply Hyv; auto. }
        rewrite <- Erate.
        set (rate := fun lane => rate_of N (nth (c / L * (L * nrxn) + i * L + lane) rc (n0 N)) rs
                                 (fun id => nth (c / L * (L * nspec) + id * L + lane) y (n0 N))).
        change (rate_of N (nth (c / L * (L * nrxn) + i * L + c mod L) rc (n0 N)) rs
                  (fun id => nth (c / L * (L * nspec) + id * L + c mod L) y (n0 N))) with (rate (c mod L)).
        match goal with |- context [fold_left ?F rs v'] =>
          rewrite (fold_left_ext_in F (fun v id => if id =? s then nsub N v (rate (c mod L)) else v) rs v')
        end.
        2:{ intros v1 id Hid.
            apply (lanes_hit c s id (fun lane v => nsub N v (rate lane))); auto. }
        apply fold_left_ext_in. intros v1 [id yl] Hid. cbn [fst snd].
        apply (lanes_hit c s id (fun lane v => nadd N v (nmul N yl (rate lane)))); auto.
        apply (Hp (id, yl)); auto.
      - (* other groups never touch the slot *)
        intros g' Hg' NE v'. apply slot_apply_miss. intros o Ho.
        rewrite in_flat_map in Ho. destruct Ho as [[i [rs ps]] [Hin2 Ho]].
        assert (Hrx : In (rs, ps) (ps_rxns N p)) by (apply in_combine_r in Hin2; auto).
        destruct (Hids _ Hrx) as [Hr Hp]. simpl in Hr, Hp.
        rewrite vm_addr_alt.
        assert (Hmiss : forall id lane, id < nspec -> lane < L ->
                  g' * (L * nspec) + id * L + lane <> c / L * (L * nspec) + s * L + c mod L).
        { intros id lane Hid Hlane E.
          assert (id * L + lane < L * nspec) by nia. assert (s * L + c mod L < L * nspec) by nia.
          assert (g' = c / L) by nia. contradiction. }
        rewrite in_app_iff, !in_flat_map in Ho.
        destruct Ho as [[id [Hid Ho]]|[[id yl] [Hid Ho]]]; rewrite in_map_iff in Ho;
          destruct Ho as [lane [<- Hlane]]; rewrite in_seq in Hlane; cbn [fst]; apply Hmiss; try lia; auto.
        apply (Hp (id, yl)); auto.
    Qed.
  End ForcingVec.
End AnyNum.

(* ====================================================================================== *)
(* Part 2: over any commutative ring the slot value is the mass-action sum.               *)
Section OverRing.
  Variable N : Num.
  Notation T := (T N).
  Hypothesis Nring : ring_theory (n0 N) (n1 N) (nadd N) (nmul N) (nsub N) (nopp N) eq.
  Add Ring NumRing : Nring.
  Notation "a +! b" := (nadd N a b) (at level 50, left associativity).
  Notation "a *! b" := (nmul N a b) (at level 40, left associativity).
  Notation "a -! b" := (nsub N a b) (at level 50, left associativity).

  Fixpoint nat_to (n : nat) : T := match n with O => n0 N | S k => nat_to k +! n1 N end.

  (* sum of the yields with which species s is produced ; multiplicity of s as reactant *)
  Fixpoint yield_sum (ps : list (nat * T)) (s : nat) : T :=
    match ps with
    | [] => n0 N
    | p :: t => (if fst p =? s then snd p else n0 N) +! yield_sum t s
    end.
  Definition multiplicity (rs : list nat) (s : nat) : nat := count_occ Nat.eq_dec rs s.
  Definition stoich (rx : rrxn N) (s : nat) : T := yield_sum (snd rx) s -! nat_to (multiplicity (fst rx) s).

  Fixpoint conc_product (rs : list nat) (y : nat -> T) : T :=
    match rs with [] => n1 N | id :: t => y id *! conc_product t y end.

  (* the mass-action rate law: sum over reactions of (yield - multiplicity) * k * prod y *)
  Fixpoint mass_action (l : list (nat * rrxn N)) (k y : nat -> T) (s : nat) : T :=
    match l with
    | [] => n0 N
    | (i, rx) :: t => stoich rx s *! (k i *! conc_product (fst rx) y) +! mass_action t k y s
    end.

  Lemma rate_of_product k rs y : rate_of N k rs y = k *! conc_product rs y.
  Proof.
    unfold rate_of. revert k; induction rs as [|id rs IH]; intros k; simpl; [ring|].
    rewrite IH. ring.
  Qed.

  Lemma react_fold s rate rs v :
    fold_left (fun v id => if id =? s then v -! rate else v) rs v =
    v -! nat_to (multiplicity rs s) *! rate.
  Proof.
    revert v; induction rs as [|id rs IH]; intros v; simpl; [ring|].
    rewrite IH. unfold multiplicity; simpl.
    destruct (Nat.eq_dec id s) as [->|NE].
    - rewrite Nat.eqb_refl. simpl. ring.
    - destruct (Nat.eqb_spec id s); [contradiction|]. reflexivity.
  Qed.

  Lemma prod_fold s rate (ps : list (nat * T)) v :
    fold_left (fun v (p : nat * T) => if fst p =? s then v +! snd p *! rate else v) ps v =
    v +! yield_sum ps s *! rate.
  Proof.
    revert v; induction ps as [|p ps IH]; intros v; simpl; [ring|].
    rewrite IH. destruct (fst p =? s); ring.
  Qed.

  Lemma rxn_slot_ring s rate rx v : rxn_slot N s rate rx v = v +! stoich rx s *! rate.
  Proof. unfold rxn_slot, stoich. rewrite react_fold, prod_fold. ring. Qed.

  Theorem forcing_slot_mass_action rxns k y s v0 :
    forcing_slot N rxns k y s v0 = v0 +! mass_action (combine (seq 0 (length rxns)) rxns) k y s.
  Proof.
    unfold forcing_slot. generalize (combine (seq 0 (length rxns)) rxns) as l.
    intros l; revert v0; induction l as [|[i rx] l IH]; intros v0; simpl; [ring|].
    rewrite IH, rxn_slot_ring, rate_of_product. ring.
  Qed.

  (* a species that occurs in no reaction keeps its value (frame) — needs no ring axiom,
     stated here for use next to the spec *)
  Lemma forcing_slot_untouched rxns k y s v0 :
    (forall rx, In rx rxns -> ~ In s (fst rx) /\ (forall p, In p (snd rx) -> fst p <> s)) ->
    forcing_slot N rxns k y s v0 = v0.
  Proof.
    intros H. unfold forcing_slot. apply fold_left_id. intros v [i rx] Hin.
    apply in_combine_r in Hin. destruct (H rx Hin) as [Hr Hp]. unfold rxn_slot; cbn [fst snd].
    rewrite (fold_left_id _ (fst rx)).
    - apply fold_left_id. intros a p Hp'. destruct (Nat.eqb_spec (fst p) s); [exfalso; eapply Hp; eauto|reflexivity].
    - intros a id Hid. destruct (Nat.eqb_spec id s); [subst; contradiction|reflexivity].
  Qed.
End OverRing.

(* ====================================================================================== *)
(* Part 3: the flattened tables built by the constructor, walked by the kernels' iterators,
   give back the resolved reactions (iterator arithmetic discharged once).                 *)
Section Tables.
  Variable N : Num.
  Notation T := (T N).

  Lemma firstn_len_app {A} n (a b : list A) : length a = n -> firstn n (a ++ b) = a.
  Proof. intros <-. rewrite firstn_app, Nat.sub_diag, firstn_all. simpl. apply app_nil_r. Qed.
  Lemma skipn_len_app {A} n (a b : list A) : length a = n -> skipn n (a ++ b) = b.
  Proof. intros <-. rewrite skipn_app, Nat.sub_diag, skipn_all. reflexivity. Qed.

  Lemma unflatten_concat {A} (ls : list (list A)) : unflatten (map (@length A) ls) (concat ls) = ls.
  Proof.
    induction ls as [|l ls IH]; simpl; auto.
    rewrite firstn_len_app, skipn_len_app by reflexivity. rewrite IH. reflexivity.
  Qed.

  Lemma combine_fst_snd {A B} (l : list (A * B)) : combine (map fst l) (map snd l) = l.
  Proof. induction l as [|[a b] l IH]; simpl; congruence. Qed.

  Lemma ps_rxns_of_tables (rr : list (rrxn N)) J1 J2 J3 J4 :
    ps_rxns N (mkPs N (map (fun x => length (fst x)) rr) (concat (map fst rr))
                      (map (fun x => length (snd x)) rr) (concat (map (fun x => map fst (snd x)) rr))
                      (concat (map (fun x => map snd (snd x)) rr)) J1 J2 J3 J4) = rr.
  Proof.
    unfold ps_rxns; cbn [ps_nreact ps_rids ps_nprod ps_pids ps_yields].
    induction rr as [|[rs ps] rr IH]; [reflexivity|].
    cbn [map concat fst snd unflatten].
    rewrite !firstn_len_app, !skipn_len_app by (rewrite ?map_length; reflexivity).
    cbn [combine map]. rewrite combine_fst_snd. f_equal. exact IH.
  Qed.

  Theorem ps_build_rxns m rxns p :
    ps_build N m rxns = Ok p ->
    exists rr, resolve_all N m rxns = Ok rr /\ ps_rxns N p = rr.
  Proof.
    unfold ps_build. destruct (resolve_all N m rxns) as [rr|c]; [|discriminate].
    intros H; inversion H; subst. exists rr. split; [reflexivity|apply ps_rxns_of_tables].
  Qed.

  (* ids produced by resolution are values of the map *)
  Definition vmap_range_lt (m : vmap) (n : nat) : Prop := forall k v, In (k, v) m -> v < n.

  Lemma vlookup_in m name i : vlookup m name = Some i -> exists k, In (k, i) m.
  Proof.
    induction m as [|[k v] m IH]; simpl; [discriminate|].
    destruct (k =? name); intros H.
    - inversion H; subst. eauto.
    - destruct (IH H) as [k' ?]. eauto.
  Qed.

  Lemma resolve_reactants_lt m n l rs :
    vmap_range_lt m n -> resolve_reactants m l = Ok rs -> forall id, In id rs -> id < n.
  Proof.
    intros Hm. revert rs; induction l as [|s l IH]; simpl; intros rs H id Hid.
    - inversion H; subst; contradiction.
    - destruct (s_param s); [eapply IH; eauto|].
      destruct (vlookup m (s_name s)) as [i|] eqn:E; [|discriminate].
      destruct (resolve_reactants m l) as [r|]; [|discriminate].
      inversion H; subst. destruct Hid as [<-|Hid]; [|eapply IH; eauto].
      destruct (vlookup_in _ _ _ E) as [k Hk]. eapply Hm; eauto.
  Qed.

  Lemma resolve_products_lt m n l ps :
    vmap_range_lt m n -> resolve_products N m l = Ok ps -> forall p, In p ps -> fst p < n.
  Proof.
    intros Hm. revert ps; induction l as [|[s y] l IH]; simpl; intros ps H p Hp.
    - inversion H; subst; contradiction.
    - destruct (s_param s); [eapply IH; eauto|].
      destruct (vlookup m (s_name s)) as [i|] eqn:E; [|discriminate].
      destruct (resolve_products N m l) as [r|]; [|discriminate].
      inversion H; subst. destruct Hp as [<-|Hp]; [|eapply IH; eauto].
      simpl. destruct (vlookup_in _ _ _ E) as [k Hk]. eapply Hm; eauto.
  Qed.

  Lemma resolve_all_lt m n rxns rr :
    vmap_range_lt m n -> resolve_all N m rxns = Ok rr -> rxns_ids_lt N rr n.
  Proof.
    intros Hm. revert rr; induction rxns as [|r rxns IH]; simpl; intros rr H rx Hrx.
    - inversion H; subst; contradiction.
    - destruct (resolve_reactants m (r_reactants N r)) as [rs|] eqn:E1; [|discriminate].
      destruct (resolve_products N m (r_products N r)) as [ps|] eqn:E2; [|discriminate].
      destruct (resolve_all N m rxns) as [l|]; [|discriminate].
      inversion H; subst. destruct Hrx as [<-|Hrx]; [|eapply IH; eauto].
      split; simpl; [eapply resolve_reactants_lt | eapply resolve_products_lt]; eauto.
  Qed.

  Lemma resolve_all_length m rxns rr : resolve_all N m rxns = Ok rr -> length rr = length rxns.
  Proof.
    revert rr; induction rxns as [|r rxns IH]; simpl; intros rr H.
    - inversion H; reflexivity.
    - destruct (resolve_reactants m (r_reactants N r)); [|discriminate].
      destruct (resolve_products N m (r_products N r)); [|discriminate].
      destruct (resolve_all N m rxns) as [l|]; [|discriminate].
      inversion H; subst; simpl. f_equal; apply IH; reflexivity.
  Qed.
End Tables.

(* ====================================================================================== *)
(* Assembly: one statement for every layout.                                              *)
Definition layout_ok (ly : layout) : Prop := match ly with Grouped L => 0 < L | RowMajor => True end.

Lemma forcing_slot_any_layout (N : Num) (ly : layout) p ncells nspec nrxn rc y f K Y F0 c s :
  layout_ok ly ->
  rxns_ids_lt N (ps_rxns N p) nspec -> length (ps_rxns N p) <= nrxn ->
  represents N ly ncells nrxn rc K -> represents N ly ncells nspec y Y -> represents N ly ncells nspec f F0 ->
  c < ncells -> s < nspec ->
  mget (n0 N) ly nspec (add_forcing N ly p ncells nspec nrxn rc y f) c s =
  forcing_slot N (ps_rxns N p) (K c) (Y c) s (F0 c s).
Proof.
  intros Hly Hids Hnr Hrc Hy Hf Hc Hs. unfold mget. destruct ly as [|L]; simpl lay_addr.
  - eapply forcing_rm_slot; eauto.
  - eapply forcing_vec_slot; eauto.
Qed.

(* the mechanism-level statement *)
Theorem forcing_mass_action (N : Num)
  (Nring : ring_theory (n0 N) (n1 N) (nadd N) (nmul N) (nsub N) (nopp N) eq)
  (ly : layout) (m : vmap) (rxns : list (reaction N)) p ncells nspec rc y f K Y F0 c s :
  layout_ok ly ->
  vmap_range_lt m nspec ->
  ps_build N m rxns = Ok p ->
  represents N ly ncells (length rxns) rc K -> represents N ly ncells nspec y Y ->
  represents N ly ncells nspec f F0 ->
  c < ncells -> s < nspec ->
  exists rr, resolve_all N m rxns = Ok rr /\
    mget (n0 N) ly nspec (add_forcing N ly p ncells nspec (length rxns) rc y f) c s =
    nadd N (F0 c s) (mass_action N (combine (seq 0 (length rr)) rr) (K c) (Y c) s).
Proof.
  intros Hly Hm Hb Hrc Hy Hf Hc Hs.
  destruct (ps_build_rxns N m rxns p Hb) as [rr [Hrr Hp]].
  exists rr. split; [assumption|].
  rewrite (forcing_slot_any_layout N ly p ncells nspec (length rxns) rc y f K Y F0 c s); auto.
  - rewrite Hp. apply forcing_slot_mass_action; assumption.
  - rewrite Hp. eapply resolve_all_lt; eauto.
  - rewrite Hp. rewrite (resolve_all_length N m rxns rr Hrr). lia.
Qed.
