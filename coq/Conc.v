(* Conc.v — interleaving model for C16: threads sharing one read-only object, each owning its State.
   Atomic actions are arbitrary store transformers; what is assumed of them is stated as footprints
   (what they may read, what they may write).  Any number of threads, any schedule. *)
From Coq Require Import List Arith Lia Bool.
Import ListNotations.

Section Interleaving.
  Variable loc : Type.            (* memory locations: fields of the shared solver, fields of the States, ... *)
  Variable V : Type.              (* what a location holds (bit patterns: equality below is bit-for-bit) *)
  Definition store := loc -> V.
  Definition action := store -> store.

  Variable own : nat -> loc -> Prop.       (* own t l : l belongs to the State (and locals) of thread t *)
  Variable shared : loc -> Prop.           (* the solver object and everything reachable from it *)

  (* thread t's action a writes nothing outside own t ... *)
  Definition writes_only_own (t : nat) (a : action) : Prop :=
    forall s l, ~ own t l -> a s l = s l.
  (* ... and what it writes depends only on own t and the shared object *)
  Definition reads_own_and_shared (t : nat) (a : action) : Prop :=
    forall s s', (forall l, own t l \/ shared l -> s l = s' l) ->
                 forall l, own t l -> a s l = a s' l.
  Definition respects (t : nat) (a : action) : Prop := writes_only_own t a /\ reads_own_and_shared t a.

  Definition serial (acts : list action) (s : store) : store := fold_left (fun s a => a s) acts s.

  (* one scheduling decision: thread t performs its next action, if it has one left *)
  Definition sched_step (progs : nat -> list action) (s : store) (t : nat) : (nat -> list action) * store :=
    match progs t with
    | [] => (progs, s)
    | a :: rest => (fun u => if Nat.eqb u t then rest else progs u, a s)
    end.

  Fixpoint exec (sched : list nat) (progs : nat -> list action) (s : store) : (nat -> list action) * store :=
    match sched with
    | [] => (progs, s)
    | t :: sched' => let '(progs', s') := sched_step progs s t in exec sched' progs' s'
    end.

  Definition count (t : nat) (sched : list nat) : nat := length (filter (Nat.eqb t) sched).
End Interleaving.

Arguments serial {loc V} acts s.
Arguments exec {loc V} sched progs s.
Arguments sched_step {loc V} progs s t.
Arguments respects {loc V} own shared t a.
Arguments writes_only_own {loc V} own t a.
Arguments reads_own_and_shared {loc V} own shared t a.

(* ---------------------------------------------------------------------------------------------
   The footprint table regenerated from the source (gen/Footprint.v) is a list of these. *)
From Coq Require Import String.
Record fn_entry := {
  fe_where : string;              (* file:line *)
  fe_class : string;
  fe_name : string;
  fe_arity : nat;
  fe_const : bool;                (* declared const (or static / free function) *)
  fe_member_writes : list string; (* members of the enclosing (shared) object the body assigns / mutates *)
  fe_static_locals : list string  (* function-local statics that are not const *)
}.

Definition is_nil {A} (l : list A) : bool := match l with [] => true | _ => false end.
Definition entry_ok (e : fn_entry) : bool := is_nil (fe_member_writes e) && is_nil (fe_static_locals e).

(* reached : the functions reachable from the three entry points;
   hazards : every `mutable` data member, const_cast and non-const namespace-scope / class-static variable
             in the headers the reachable functions live in *)
Definition footprint_ok (reached : list fn_entry) (hazards : list string) (entries_found : nat) : bool :=
  forallb entry_ok reached && is_nil hazards && Nat.eqb entries_found 3.
