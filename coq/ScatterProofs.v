(* ScatterProofs.v — the shape shared by the cell-wise kernels (forcing, Jacobian): for every
   cell (or group of L lanes) and every item, compute a rate from the cell's rate constant
   and concentrations, then update output columns it_a with f1 and columns it_b (weighted)
   with f2.  One theorem, for any Num and both layouts: the logical output slot (c, s) holds
   the fold of the item updates that target column s, computed from cell c's inputs only. *)
From Model Require Import Base BaseProofs Dense DenseProofs Sparse ProcessSetM ProcessSetProofs.
Local Open Scope nat_scope.

Section Scatter.
  Variable N : Num.
  Notation T := (T N).
  Notation op := (op N).

  Record item := mkItem { it_k : nat; it_ids : list nat; it_a : list nat; it_b : list (nat * T) }.
  Variable f1 : T -> T -> T.          (* f1 rate v *)
  Variable f2 : T -> T -> T -> T.     (* f2 weight rate v *)

  Definition scatter_rm (items : list item) (ncells ncolY ncolK ncolO : nat) (rc y : list T) : list op :=
    flat_map (fun c =>
      flat_map (fun it =>
        let rate := rate_of N (nth (rm_addr ncolK c (it_k it)) rc (n0 N)) (it_ids it)
                            (fun id => nth (rm_addr ncolY c id) y (n0 N)) in
        map (fun id => (rm_addr ncolO c id, f1 rate)) (it_a it) ++
        map (fun '(id, w) => (rm_addr ncolO c id, f2 w rate)) (it_b it))
      items)
    (seq 0 ncells).

  Definition scatter_vec (L : nat) (items : list item) (ncells ncolY ncolK ncolO : nat) (rc y : list T) : list op :=
    flat_map (fun g =>
      flat_map (fun it =>
        let rate := fun lane =>
          rate_of N (nth (g * (L * ncolK) + it_k it * L + lane) rc (n0 N)) (it_ids it)
                  (fun id => nth (g * (L * ncolY) + id * L + lane) y (n0 N)) in
        flat_map (fun id => map (fun lane => (g * (L * ncolO) + id * L + lane, f1 (rate lane))) (seq 0 L)) (it_a it) ++
        flat_map (fun '(id, w) => map (fun lane => (g * (L * ncolO) + id * L + lane, f2 w (rate lane))) (seq 0 L)) (it_b it))
      items)
    (seq 0 (vm_groups L ncells)).

  Definition item_slot (s : nat) (rate : T) (it : item) (v : T) : T :=
    fold_left (fun v (p : nat * T) => if fst p =? s then f2 (snd p) rate v else v) (it_b it)
              (fold_left (fun v id => if id =? s then f1 rate v else v) (it_a it) v).

  Definition scatter_slot (items : list item) (k y : nat -> T) (s : nat) (v0 : T) : T :=
    fold_left (fun v it => item_slot s (rate_of N (k (it_k it)) (it_ids it) y) it v) items v0.

  Definition items_ok (items : list item) (ncolY ncolK ncolO : nat) : Prop :=
    forall it, In it items ->
      it_k it < ncolK /\ (forall id, In id (it_ids it) -> id < ncolY) /\
      (forall id, In id (it_a it) -> id < ncolO) /\ (forall p, In p (it_b it) -> fst p < ncolO).

  Section Both.
    Variable items : list item.
    Variables ncells ncolY ncolK ncolO : nat.
    Variables rc y f : list T.
    Variables K Y F0 : nat -> nat -> T.
    Hypothesis Hok : items_ok items ncolY ncolK ncolO.

    Lemma scatter_rm_slot c s :
      represents N RowMajor ncells ncolK rc K -> represents N RowMajor ncells ncolY y Y ->
      represents N RowMajor ncells ncolO f F0 ->
      c < ncells -> s < ncolO ->
      nth (rm_addr ncolO c s) (run_ops N (scatter_rm items ncells ncolY ncolK ncolO rc y) f) (n0 N) =
      scatter_slot items (K c) (Y c) s (F0 c s).
    Proof.
      intros [_ Hrcv] [_ Hyv] [Hlen Hfv] Hc Hs. simpl in Hrcv, Hyv, Hlen, Hfv.
      rewrite run_ops_nth by (rewrite Hlen; apply rm_addr_range; auto).
      rewrite (Hfv c s Hc Hs). unfold scatter_rm. rewrite slot_apply_flat_map.
      rewrite (fold_only_one N Nat.eq_dec _ c); [| apply seq_NoDup |].
      - destruct (in_dec Nat.eq_dec c (seq 0 ncells)) as [_|Hn];
          [|exfalso; apply Hn; rewrite in_seq; lia].
        rewrite slot_apply_flat_map. unfold scatter_slot.
        apply fold_left_ext_in. intros v' it Hin.
        destruct (Hok it Hin) as [Hk [Hi [Ha Hb]]].
        rewrite slot_apply_app. rewrite (Hrcv c (it_k it) Hc Hk).
        rewrite (rate_of_ext N _ (it_ids it) _ (Y c)) by (intros id Hid; apply Hyv; auto).
        unfold item_slot.
        rewrite (slot_react_ops N (rm_addr ncolO c) s _ (it_a it) _ ncolO); auto;
          [|intros id Hid E; apply (rm_addr_inj ncolO c id c s) in E; tauto].
        rewrite (slot_prod_ops N (rm_addr ncolO c) s (fun w => f2 w _) (it_b it) _ ncolO); auto.
        intros id Hid E; apply (rm_addr_inj ncolO c id c s) in E; tauto.
      - intros c' Hc' NE v'. apply slot_apply_miss. intros o Ho.
        rewrite in_flat_map in Ho. destruct Ho as [it [Hin Ho]].
        destruct (Hok it Hin) as [Hk [Hi [Ha Hb]]].
        rewrite in_app_iff, !in_map_iff in Ho.
        destruct Ho as [[id [<- Hid]]|[[id w] [<- Hid]]]; simpl; intros E;
          apply rm_addr_inj in E; auto; try tauto.
        apply (Hb (id, w)); auto.
    Qed.

    Variable L : nat.
    Hypothesis HL : 0 < L.

    Lemma lanes_hit' c s id (G : nat -> T -> T) v :
      s < ncolO -> id < ncolO ->
      slot_apply N (vm_addr L ncolO c s)
        (map (fun lane => ((c / L) * (L * ncolO) + id * L + lane, G lane)) (seq 0 L)) v =
      if id =? s then G (c mod L) v else v.
    Proof.
      intros Hs Hid. rewrite slot_lanes, vm_addr_alt.
      pose proof (Nat.mod_upper_bound c L ltac:(lia)) as Hl.
      set (off := c / L * (L * ncolO)). set (l := c mod L) in *.
      destruct (Nat.eqb_spec id s) as [->|NE].
      - destruct (Nat.leb_spec (off + s * L) (off + s * L + l)); [|lia].
        destruct (Nat.ltb_spec (off + s * L + l) (off + s * L + L)); [|lia].
        cbn [andb]. replace (off + s * L + l - (off + s * L)) with l by lia. reflexivity.
      - destruct (Nat.leb_spec (off + id * L) (off + s * L + l)) as [H1|H1]; cbn [andb]; auto.
        destruct (Nat.ltb_spec (off + s * L + l) (off + id * L + L)) as [H2|H2]; auto.
        exfalso. assert (id * L <= s * L + l) by lia. assert (s * L + l < id * L + L) by lia.
        assert (id <= s) by nia. assert (s <= id) by nia. lia.
    Qed.

    Lemma scatter_vec_slot c s :
      represents N (Grouped L) ncells ncolK rc K -> represents N (Grouped L) ncells ncolY y Y ->
      represents N (Grouped L) ncells ncolO f F0 ->
      c < ncells -> s < ncolO ->
      nth (vm_addr L ncolO c s) (run_ops N (scatter_vec L items ncells ncolY ncolK ncolO rc y) f) (n0 N) =
      scatter_slot items (K c) (Y c) s (F0 c s).
    Proof.
      intros [_ Hrcv] [_ Hyv] [Hlen Hfv] Hc Hs. simpl in Hrcv, Hyv, Hlen, Hfv.
      rewrite run_ops_nth by (rewrite Hlen; apply vm_addr_range; auto).
      rewrite (Hfv c s Hc Hs). unfold scatter_vec. rewrite slot_apply_flat_map.
      pose proof (Nat.mod_upper_bound c L ltac:(lia)) as Hl.
      rewrite (fold_only_one N Nat.eq_dec _ (c / L)); [| apply seq_NoDup |].
      - destruct (in_dec Nat.eq_dec (c / L) (seq 0 (vm_groups L ncells))) as [_|Hn].
        2:{ exfalso; apply Hn; rewrite in_seq. split; [lia|]. apply ceil_div_gt; auto. }
        rewrite slot_apply_flat_map. unfold scatter_slot.
        apply fold_left_ext_in. intros v' it Hin.
        destruct (Hok it Hin) as [Hk [Hi [Ha Hb]]].
        rewrite slot_apply_app. unfold item_slot. rewrite !slot_apply_flat_map.
        assert (Erate :
          rate_of N (nth (c / L * (L * ncolK) + it_k it * L + c mod L) rc (n0 N)) (it_ids it)
                  (fun id => nth (c / L * (L * ncolY) + id * L + c mod L) y (n0 N)) =
          rate_of N (K c (it_k it)) (it_ids it) (Y c)).
        { rewrite <- vm_addr_alt, (Hrcv c (it_k it) Hc Hk).
          apply rate_of_ext. intros id Hid. rewrite <- vm_addr_alt. apply Hyv; auto. }
        rewrite <- Erate.
        set (rate := fun lane => rate_of N (nth (c / L * (L * ncolK) + it_k it * L + lane) rc (n0 N)) (it_ids it)
                                 (fun id => nth (c / L * (L * ncolY) + id * L + lane) y (n0 N))).
        change (rate_of N (nth (c / L * (L * ncolK) + it_k it * L + c mod L) rc (n0 N)) (it_ids it)
                  (fun id => nth (c / L * (L * ncolY) + id * L + c mod L) y (n0 N))) with (rate (c mod L)).
        match goal with |- context [fold_left ?F (it_a it) v'] =>
          rewrite (fold_left_ext_in F (fun v id => if id =? s then f1 (rate (c mod L)) v else v) (it_a it) v')
        end.
        2:{ intros v1 id Hid. apply (lanes_hit' c s id (fun lane => f1 (rate lane))); auto. }
        apply fold_left_ext_in. intros v1 [id w] Hid. cbn [fst snd].
        apply (lanes_hit' c s id (fun lane => f2 w (rate lane))); auto.
        apply (Hb (id, w)); auto.
      - intros g' Hg' NE v'. apply slot_apply_miss. intros o Ho.
        rewrite in_flat_map in Ho. destruct Ho as [it [Hin Ho]].
        destruct (Hok it Hin) as [Hk [Hi [Ha Hb]]].
        rewrite vm_addr_alt.
        assert (Hmiss : forall id lane, id < ncolO -> lane < L ->
                  g' * (L * ncolO) + id * L + lane <> c / L * (L * ncolO) + s * L + c mod L).
        { intros id lane Hid Hlane E.
          assert (id * L + lane < L * ncolO) by nia. assert (s * L + c mod L < L * ncolO) by nia.
          assert (g' = c / L) by nia. contradiction. }
        rewrite in_app_iff, !in_flat_map in Ho.
        destruct Ho as [[id [Hid Ho]]|[[id w] [Hid Ho]]]; rewrite in_map_iff in Ho;
          destruct Ho as [lane [<- Hlane]]; rewrite in_seq in Hlane; cbn [fst]; apply Hmiss; try lia; auto.
        apply (Hb (id, w)); auto.
    Qed.
  End Both.
End Scatter.
