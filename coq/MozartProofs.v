(* MozartProofs.v — LuDecompositionMozart (separate L and U; LU.mozart_sym / LU.mozart_num): initial copies of A
   with explicit zeros in the fill-in, then the right-looking elimination writing the part of the trailing update
   on or above the diagonal into U and the part below it into L.  For every field, pattern, matrix and every
   previous content of L and U: L*U = A, provided no pivot is zero. *)
From Model Require Import Base LU LUProofs DoolittleProofs MozartIPProofs.
From Coq Require Import Ring Field Lia.
Local Open Scope nat_scope.

Section Mozart.
  Variable N : Num.
  Notation T := (T N).
  Hypothesis Nfield : field_theory (n0 N) (n1 N) (nadd N) (nmul N) (nsub N) (nopp N) (ndiv N) (ninv N) eq.
  Add Field NumFieldMZ : Nfield.
  Notation "a +! b" := (nadd N a b) (at level 50, left associativity).
  Notation "a *! b" := (nmul N a b) (at level 40, left associativity).
  Notation "a -! b" := (nsub N a b) (at level 50, left associativity).
  Notation "0!" := (n0 N).
  Notation "1!" := (n1 N).
  Notation sum := (nsum N).
  Notation mat := (mat N).
  Notation lsum := (lsum N).

  Variable n : nat.
  Variable A : mat.
  Variables Ap Lp Up : pat.
  Notation A' := (view N Ap A).

  (* ================= initial values ================= *)
  Definition iu_set (i : nat) (U : mat) (j : nat) : mat := if Ap j i then mset N U j i (A j i) else U.
  Definition il_set (i : nat) (L : mat) (j : nat) : mat := if Ap j i then mset N L j i (A j i) else L.
  Definition init_step (LU : mat * mat) (i : nat) : mat * mat :=
    let (L, U) := LU in
    (fold_left (il_set i) (range (i + 1) n) (mset N L i i 1!), fold_left (iu_set i) (seq 0 (i + 1)) U).
  Definition zu_set (i : nat) (U : mat) (j : nat) : mat := if negb (Ap j i) && Up j i then mset N U j i 0! else U.
  Definition zl_set (i : nat) (L : mat) (j : nat) : mat := if negb (Ap j i) && Lp j i then mset N L j i 0! else L.

  (* a column-wise sweep that sets (j, i) := v j i for the j of a list satisfying a test, and nothing else *)
  Lemma sweep_spec (test : nat -> nat -> bool) (v : nat -> nat -> T) i js : NoDup js -> forall M,
    let M' := fold_left (fun M j => if test j i then mset N M j i (v j i) else M) js M in
    (forall j, In j js -> test j i = true -> M' j i = v j i) /\
    (forall r c, c <> i \/ ~ In r js \/ test r i = false -> M' r c = M r c).
  Proof.
    induction js as [|j js IH]; intros Hnd M; cbn [fold_left].
    - split; [intros j [] | reflexivity].
    - inversion Hnd as [|? ? Hnj Hnd']; subst.
      destruct (IH Hnd' (if test j i then mset N M j i (v j i) else M)) as [IH1 IH2].
      assert (S2 : forall r c, r <> j \/ c <> i \/ test r i = false ->
                     (if test j i then mset N M j i (v j i) else M) r c = M r c).
      { intros r c Hne. destruct (test j i) eqn:Ht; [|reflexivity].
        apply mset_other. destruct Hne as [Hr | [Hc | Ht']]; [left; exact Hr | right; exact Hc|].
        left. intros ->. congruence. }
      split.
      + intros j' [<- | Hj'] Ht.
        * rewrite IH2 by (right; left; exact Hnj). rewrite Ht. apply mset_same.
        * apply (IH1 j' Hj' Ht).
      + intros r c Hne. rewrite IH2.
        * apply S2. destruct Hne as [Hc | [Hr | Ht]];
            [right; left; exact Hc | left; intros ->; apply Hr; left; reflexivity | right; right; exact Ht].
        * destruct Hne as [Hc | [Hr | Ht]];
            [left; exact Hc | right; left; intros Hin; apply Hr; right; exact Hin | right; right; exact Ht].
  Qed.

  (* a double sweep over the columns 0..m-1, rows js(i) of column i: entry (r, c) is set iff c < m, r in js c, test r c *)
  Lemma sweeps_spec (test : nat -> nat -> bool) (v : nat -> nat -> T) (rows : nat -> list nat) m :
    (forall i, NoDup (rows i)) -> forall M,
    let M' := fold_left (fun M i => fold_left (fun M j => if test j i then mset N M j i (v j i) else M) (rows i) M) (seq 0 m) M in
    forall r c, M' r c = if (c <? m) && existsb (Nat.eqb r) (rows c) && test r c then v r c else M r c.
  Proof.
    intros Hnd. induction m as [|m IH]; intros M M' r c.
    - reflexivity.
    - unfold M'. rewrite seq_S, fold_left_app. cbn [fold_left plus].
      destruct (sweep_spec test v m (rows m) (Hnd m)
                  (fold_left (fun M i => fold_left (fun M j => if test j i then mset N M j i (v j i) else M) (rows i) M) (seq 0 m) M))
        as [S1 S2].
      cbv zeta in S1, S2.
      destruct (Nat.eq_dec c m) as [-> | Hcm].
      + replace (m <? S m) with true by (symmetry; apply Nat.ltb_lt; lia). cbn [andb].
        destruct (existsb (Nat.eqb r) (rows m)) eqn:Hex; cbn [andb].
        * apply existsb_exists in Hex. destruct Hex as [x [Hin Heq]]. apply Nat.eqb_eq in Heq. subst x.
          destruct (test r m) eqn:Ht.
          -- apply S1; assumption.
          -- rewrite S2 by (right; right; exact Ht). rewrite IH.
             replace (m <? m) with false by (symmetry; apply Nat.ltb_ge; lia). reflexivity.
        * rewrite S2.
          -- rewrite IH. replace (m <? m) with false by (symmetry; apply Nat.ltb_ge; lia). reflexivity.
          -- right; left. intros Hin.
             assert (existsb (Nat.eqb r) (rows m) = true) by (apply existsb_exists; exists r; split; [exact Hin | apply Nat.eqb_refl]).
             congruence.
      + rewrite S2 by (left; exact Hcm). rewrite IH.
        destruct (Nat.ltb_spec c m); destruct (Nat.ltb_spec c (S m)); try lia; reflexivity.
  Qed.

  (* ================= the elimination ================= *)
  Definition su_inner (i k : nat) (Lm : mat) (U : mat) (j : nat) : mat :=
    if Lp j i then mset N U j k (U j k -! Lm j i *! U i k) else U.
  Definition sep_k (i : nat) (LU : mat * mat) (k : nat) : mat * mat :=
    let (L, U) := LU in
    if Up i k then
      let U' := fold_left (su_inner i k L) (range (i + 1) (k + 1)) U in
      (fold_left (mu_inner N Lp i k (U' i k)) (range (k + 1) n) L, U')
    else (L, U).
  Definition sep_step (LU : mat * mat) (i : nat) : mat * mat :=
    let (L, U) := LU in
    fold_left (sep_k i) (range (i + 1) n) (fold_left (ms_step N Lp i (ndiv N 1! (U i i))) (range (i + 1) n) L, U).

  Definition init_LU (L0 U0 : mat) : mat * mat :=
    let LU1 := fold_left init_step (seq 0 n) (L0, U0) in
    (fold_left (fun L i => fold_left (zl_set i) (range (i + 1) n) L) (seq 0 n) (fst LU1),
     fold_left (fun U i => fold_left (zu_set i) (seq 0 (i + 1)) U) (seq 0 n) (snd LU1)).

  Lemma mozart_num_steps L0 U0 :
    mozart_num N n A Ap Lp Up L0 U0 = fold_left sep_step (seq 0 n) (init_LU L0 U0).
  Proof. reflexivity. Qed.

  (* ---------- the update of column k of U (rows i+1..k) ---------- *)
  Lemma su_inner_spec i k Lm js : (forall j, In j js -> i < j) -> NoDup js -> forall U,
    let U' := fold_left (su_inner i k Lm) js U in
    (forall j, In j js -> Lp j i = true -> U' j k = U j k -! Lm j i *! U i k) /\
    (forall r c, c <> k \/ ~ In r js \/ Lp r i = false -> U' r c = U r c).
  Proof.
    induction js as [|j js IH]; intros Hgt Hnd U; cbn [fold_left].
    - split; [intros j [] | reflexivity].
    - inversion Hnd as [|? ? Hnj Hnd']; subst.
      pose proof (Hgt j (or_introl eq_refl)) as Hij.
      destruct (IH (fun j' Hj' => Hgt j' (or_intror Hj')) Hnd' (su_inner i k Lm U j)) as [IH1 IH2].
      assert (S2 : forall r c, r <> j \/ c <> k \/ Lp r i = false -> su_inner i k Lm U j r c = U r c).
      { intros r c Hne. unfold su_inner. destruct (Lp j i) eqn:Hp; [|reflexivity].
        apply mset_other. destruct Hne as [Hr | [Hc | Hp']]; [left; exact Hr | right; exact Hc|].
        left. intros ->. congruence. }
      split.
      + intros j' [<- | Hj'] Hp.
        * rewrite IH2 by (right; left; exact Hnj). unfold su_inner. rewrite Hp. apply mset_same.
        * assert (Hjj : j' <> j) by (intros ->; contradiction).
          rewrite (IH1 j' Hj' Hp). rewrite (S2 j' k) by (left; exact Hjj).
          rewrite (S2 i k) by (left; lia). reflexivity.
      + intros r c Hne. rewrite IH2.
        * apply S2. destruct Hne as [Hc | [Hr | Hp]];
            [right; left; exact Hc | left; intros ->; apply Hr; left; reflexivity | right; right; exact Hp].
        * destruct Hne as [Hc | [Hr | Hp]];
            [left; exact Hc | right; left; intros Hin; apply Hr; right; exact Hin | right; right; exact Hp].
  Qed.

  (* ---------- one column k > i of the trailing update ---------- *)
  Lemma sep_k_spec i k L U : i < k -> k < n ->
    let L' := fst (sep_k i (L, U) k) in
    let U' := snd (sep_k i (L, U) k) in
    (Up i k = true ->
       (forall j, i < j -> j <= k -> Lp j i = true -> U' j k = U j k -! L j i *! U i k) /\
       (forall j, k < j -> j < n -> Lp j i = true -> L' j k = L j k -! L j i *! U i k)) /\
    (forall r c, c <> k \/ r <= i \/ k < r \/ Up i k = false \/ Lp r i = false -> U' r c = U r c) /\
    (forall r c, c <> k \/ r <= k \/ n <= r \/ Up i k = false \/ Lp r i = false -> L' r c = L r c).
  Proof.
    intros Hik Hk. unfold sep_k. destruct (Up i k) eqn:Hup; cbn [fst snd].
    - assert (HJu : forall j, In j (range (i + 1) (k + 1)) <-> i < j /\ j <= k) by (intros j; rewrite range_In; lia).
      assert (HJl : forall j, In j (range (k + 1) n) <-> k < j /\ j < n) by (intros j; rewrite range_In; lia).
      destruct (su_inner_spec i k L (range (i + 1) (k + 1)) (fun j Hj => proj1 (proj1 (HJu j) Hj))
                  (range_NoDup (i + 1) (k + 1)) U) as [U1 U2].
      set (U' := fold_left (su_inner i k L) (range (i + 1) (k + 1)) U) in *.
      assert (Hik' : U' i k = U i k) by (apply U2; right; left; rewrite HJu; lia).
      destruct (inner_spec N Lp i k (U' i k) (range (k + 1) n) Hik (range_NoDup (k + 1) n) L) as [L1 L2].
      repeat split.
      + intros j Hj1 Hj2 Hp. apply U1; [apply HJu; lia | exact Hp].
      + intros j Hj1 Hj2 Hp. rewrite (L1 j (proj2 (HJl j) (conj Hj1 Hj2)) Hp). rewrite Hik'. reflexivity.
      + intros r c [Hc | [Hr | [Hr | [Hf | Hp]]]];
          [apply U2; left; exact Hc | apply U2; right; left; rewrite HJu; lia | apply U2; right; left; rewrite HJu; lia
           | discriminate | apply U2; right; right; exact Hp].
      + intros r c [Hc | [Hr | [Hr | [Hf | Hp]]]];
          [apply L2; left; exact Hc | apply L2; right; left; rewrite HJl; lia | apply L2; right; left; rewrite HJl; lia
           | discriminate | apply L2; right; right; exact Hp].
    - repeat split; try discriminate; reflexivity.
  Qed.

  (* ---------- all columns k > i ---------- *)
  Lemma sep_outer_spec i ks : NoDup ks -> (forall k, In k ks -> i < k /\ k < n) -> forall L U,
    let L' := fst (fold_left (sep_k i) ks (L, U)) in
    let U' := snd (fold_left (sep_k i) ks (L, U)) in
    (forall k j, In k ks -> Up i k = true -> Lp j i = true -> i < j -> j < n ->
       (j <= k -> U' j k = U j k -! L j i *! U i k) /\ (k < j -> L' j k = L j k -! L j i *! U i k)) /\
    (forall r c, ~ In c ks \/ r <= i \/ c < r \/ Up i c = false \/ Lp r i = false -> U' r c = U r c) /\
    (forall r c, ~ In c ks \/ r <= c \/ n <= r \/ Up i c = false \/ Lp r i = false -> L' r c = L r c).
  Proof.
    induction ks as [|k ks IH]; intros Hnd Hks L U; cbn [fold_left].
    - cbn [fst snd]. split; [intros k0 j0 [] | split; reflexivity].
    - inversion Hnd as [|? ? Hnk Hnd']; subst.
      destruct (Hks k (or_introl eq_refl)) as [Hik Hk].
      destruct (sep_k_spec i k L U Hik Hk) as [S1 [SU SL]]. cbv zeta in S1, SU, SL.
      destruct (sep_k i (L, U) k) as [L1 U1] eqn:E1. cbn [fst snd] in S1, SU, SL.
      destruct (IH Hnd' (fun k' Hk' => Hks k' (or_intror Hk')) L1 U1) as [I1 [IU IL]]. cbv zeta in I1, IU, IL.
      (* row i of U and column i of L are not touched by column k *)
      assert (Hrow : forall c, U1 i c = U i c) by (intros c; apply SU; right; left; lia).
      assert (Hcol : forall r, L1 r i = L r i) by (intros r; apply SL; left; lia).
      cbv zeta. split; [|split].
      + intros k0 j Hin Hup Hlp Hij Hjn. split.
        * intros Hjk. destruct Hin as [<- | Hk'].
          -- rewrite IU by (left; exact Hnk). destruct (S1 Hup) as [S1u _]. apply S1u; assumption.
          -- assert (Hkk : k0 <> k) by (intros ->; contradiction).
             assert (Hup1 : Up i k0 = true) by exact Hup.
             destruct (I1 k0 j Hk' Hup1 Hlp Hij Hjn) as [I1u _].
             rewrite (I1u Hjk). rewrite (SU j k0) by (left; exact Hkk). rewrite Hcol, Hrow. reflexivity.
        * intros Hkj. destruct Hin as [<- | Hk'].
          -- rewrite IL by (left; exact Hnk). destruct (S1 Hup) as [_ S1l]. apply S1l; assumption.
          -- assert (Hkk : k0 <> k) by (intros ->; contradiction).
             destruct (I1 k0 j Hk' Hup Hlp Hij Hjn) as [_ I1l].
             rewrite (I1l Hkj). rewrite (SL j k0) by (left; exact Hkk). rewrite Hcol, Hrow. reflexivity.
      + intros r c Hne. rewrite IU.
        * apply SU. destruct Hne as [Hc | [Hr | [Hr | [Hp | Hp]]]];
            [left; intros ->; apply Hc; left; reflexivity | right; left; exact Hr| | |right; right; right; right; exact Hp].
          -- destruct (Nat.eq_dec c k) as [-> | Hck]; [right; right; left; exact Hr | left; exact Hck].
          -- destruct (Nat.eq_dec c k) as [-> | Hck]; [right; right; right; left; exact Hp | left; exact Hck].
        * destruct Hne as [Hc | [Hr | [Hr | [Hp | Hp]]]];
            [left; intros Hin; apply Hc; right; exact Hin | right; left; exact Hr | right; right; left; exact Hr
             | right; right; right; left; exact Hp | right; right; right; right; exact Hp].
      + intros r c Hne. rewrite IL.
        * apply SL. destruct Hne as [Hc | [Hr | [Hr | [Hp | Hp]]]];
            [left; intros ->; apply Hc; left; reflexivity | | right; right; left; exact Hr| |right; right; right; right; exact Hp].
          -- destruct (Nat.eq_dec c k) as [-> | Hck]; [right; left; exact Hr | left; exact Hck].
          -- destruct (Nat.eq_dec c k) as [-> | Hck]; [right; right; right; left; exact Hp | left; exact Hck].
        * destruct Hne as [Hc | [Hr | [Hr | [Hp | Hp]]]];
            [left; intros Hin; apply Hc; right; exact Hin | right; left; exact Hr | right; right; left; exact Hr
             | right; right; right; left; exact Hp | right; right; right; right; exact Hp].
  Qed.

  (* ================= invariant of the elimination ================= *)
  Definition jsm2 (r c m : nat) := filter (fun j => Lp r j && Up j c) (seq 0 m).
  Definition Ssum2 (L U : mat) (m r c : nat) : T := lsum (fun j => L r j *! U j c) (jsm2 r c m).

  Lemma in_jsm2 r c m j : In j (jsm2 r c m) -> j < m.
  Proof. unfold jsm2. intros H. apply filter_In in H. destruct H as [H _]. apply in_seq in H. lia. Qed.

  Lemma Ssum2_S (L U : mat) m r c :
    Ssum2 L U (S m) r c = Ssum2 L U m r c +! (if Lp r m && Up m c then L r m *! U m c else 0!).
  Proof.
    unfold Ssum2, jsm2. rewrite seq_S, filter_app. cbn [filter plus].
    unfold DoolittleProofs.lsum. rewrite fold_left_app.
    destruct (Lp r m && Up m c); cbn [fold_left]; ring.
  Qed.

  Lemma Ssum2_ext (L U L' U' : mat) m r c :
    (forall j, j < m -> L' r j = L r j /\ U' j c = U j c) -> Ssum2 L' U' m r c = Ssum2 L U m r c.
  Proof.
    intros H. unfold Ssum2. apply lsum_ext. intros j Hj. apply in_jsm2 in Hj.
    destruct (H j Hj) as [-> ->]. reflexivity.
  Qed.

  Definition MInv2 (i : nat) (L U : mat) : Prop :=
    (forall r c, r < i -> r <= c -> c < n -> Up r c = true -> U r c = A' r c -! Ssum2 L U r r c) /\
    (forall r c, c < i -> c < r -> r < n -> Lp r c = true ->
       L r c = (A' r c -! Ssum2 L U c r c) *! ndiv N 1! (U c c)) /\
    (forall r c, i <= r -> r <= c -> c < n -> Up r c = true -> U r c = A' r c -! Ssum2 L U i r c) /\
    (forall r c, i <= c -> c < r -> r < n -> Lp r c = true -> L r c = A' r c -! Ssum2 L U i r c).

  Lemma sep_step_inv i L U : i < n -> MInv2 i L U ->
    MInv2 (S i) (fst (sep_step (L, U) i)) (snd (sep_step (L, U) i)).
  Proof.
    intros Hi (IU & IL & TU & TL). unfold sep_step.
    set (inv := ndiv N 1! (U i i)).
    set (J := range (i + 1) n).
    set (L1 := fold_left (ms_step N Lp i inv) J L).
    assert (HJ : forall k, In k J <-> i < k /\ k < n) by (intros k; unfold J; rewrite range_In; lia).
    destruct (scale_spec N Lp i inv J (range_NoDup (i + 1) n) L) as [SC1 SC2]. fold L1 in SC1, SC2.
    destruct (sep_outer_spec i J (range_NoDup (i + 1) n) (fun k Hk => proj1 (HJ k) Hk) L1 U) as [UP [FU FL]].
    set (L2 := fst (fold_left (sep_k i) J (L1, U))) in *.
    set (U2 := snd (fold_left (sep_k i) J (L1, U))) in *.
    assert (F1 : forall r c, c <> i \/ r <= i -> L1 r c = L r c).
    { intros r c [Hc | Hr]; apply SC2; [left; exact Hc | right; left; rewrite HJ; lia]. }
    assert (FU' : forall r c, c <= i \/ r <= i -> U2 r c = U r c).
    { intros r c [Hc | Hr]; apply FU; [left; rewrite HJ; lia | right; left; exact Hr]. }
    assert (FL' : forall r c, c <= i \/ r <= c -> L2 r c = L1 r c).
    { intros r c [Hc | Hr]; apply FL; [left; rewrite HJ; lia | right; left; exact Hr]. }
    assert (FS : forall m r c, m <= i -> Ssum2 L2 U2 m r c = Ssum2 L U m r c).
    { intros m r c Hm. apply Ssum2_ext. intros j Hj.
      split; [rewrite FL' by (left; lia); apply F1; left; lia | apply FU'; right; lia]. }
    cbn [fst snd]. fold J L1. fold L2 U2.
    repeat split.
    - (* final rows of U *)
      intros r c Hr Hrc Hc Hp. rewrite FU' by (right; lia). rewrite (FS r r c) by lia.
      destruct (Nat.eq_dec r i) as [-> | Hne]; [apply TU; try lia; exact Hp | apply IU; try lia; exact Hp].
    - (* final columns of L *)
      intros r c Hc Hcr Hr Hp. rewrite FL' by (left; lia). rewrite (FS c r c) by lia.
      rewrite (FU' c c) by (left; lia).
      destruct (Nat.eq_dec c i) as [-> | Hne].
      + rewrite (SC1 r (proj2 (HJ r) (conj Hcr Hr)) Hp). rewrite (TL r i (le_n i) Hcr Hr Hp). reflexivity.
      + rewrite F1 by (left; exact Hne). apply IL; try lia; exact Hp.
    - (* trailing block, U part *)
      intros r c Hr Hrc Hc Hp. assert (Hrn : r < n) by lia.
      assert (Hir : i < r) by lia. assert (Hic' : i < c) by lia. assert (Hir' : i <= r) by lia.
      rewrite Ssum2_S. rewrite (FS i r c (le_n i)).
      assert (Hri : L2 r i = L1 r i) by (apply FL'; left; lia).
      assert (Hic : U2 i c = U i c) by (apply FU'; right; lia).
      rewrite Hri, Hic.
      destruct (Lp r i) eqn:Hpri; destruct (Up i c) eqn:Hpic; cbn [andb].
      + destruct (UP c r (proj2 (HJ c) (conj Hic' Hc)) Hpic Hpri Hir Hrn) as [UPu _].
        rewrite (UPu Hrc). rewrite (TU r c Hir' Hrc Hc Hp). ring.
      + rewrite FU by (right; right; right; left; exact Hpic). rewrite (TU r c Hir' Hrc Hc Hp). ring.
      + rewrite FU by (right; right; right; right; exact Hpri). rewrite (TU r c Hir' Hrc Hc Hp). ring.
      + rewrite FU by (right; right; right; right; exact Hpri). rewrite (TU r c Hir' Hrc Hc Hp). ring.
    - (* trailing block, L part *)
      intros r c Hc Hcr Hr Hp.
      assert (Hir : i < r) by lia. assert (Hic' : i < c) by lia. assert (Hic'' : i <= c) by lia. assert (Hcn : c < n) by lia.
      rewrite Ssum2_S. rewrite (FS i r c (le_n i)).
      assert (Hri : L2 r i = L1 r i) by (apply FL'; left; lia).
      assert (Hic : U2 i c = U i c) by (apply FU'; right; lia).
      rewrite Hri, Hic.
      destruct (Lp r i) eqn:Hpri; destruct (Up i c) eqn:Hpic; cbn [andb].
      + destruct (UP c r (proj2 (HJ c) (conj Hic' Hcn)) Hpic Hpri Hir Hr) as [_ UPl].
        rewrite (UPl Hcr). rewrite (F1 r c) by (left; lia). rewrite (TL r c Hic'' Hcr Hr Hp). ring.
      + rewrite FL by (right; right; right; left; exact Hpic). rewrite F1 by (left; lia).
        rewrite (TL r c Hic'' Hcr Hr Hp). ring.
      + rewrite FL by (right; right; right; right; exact Hpri). rewrite F1 by (left; lia).
        rewrite (TL r c Hic'' Hcr Hr Hp). ring.
      + rewrite FL by (right; right; right; right; exact Hpri). rewrite F1 by (left; lia).
        rewrite (TL r c Hic'' Hcr Hr Hp). ring.
  Qed.

  Lemma sep_steps_inv L U m : m <= n -> MInv2 0 L U ->
    MInv2 m (fst (fold_left sep_step (seq 0 m) (L, U))) (snd (fold_left sep_step (seq 0 m) (L, U))).
  Proof.
    induction m as [|m IH]; intros Hm H0; [exact H0|].
    rewrite seq_S, fold_left_app. cbn [fold_left plus].
    specialize (IH ltac:(lia) H0).
    destruct (fold_left sep_step (seq 0 m) (L, U)) as [Lm Um]. cbn [fst snd] in IH.
    apply sep_step_inv; [lia | exact IH].
  Qed.

  (* ================= the initial values satisfy the invariant at step 0 ================= *)
  Lemma existsb_eqb_In r l : existsb (Nat.eqb r) l = true <-> In r l.
  Proof.
    rewrite existsb_exists. split.
    - intros [x [Hin He]]. apply Nat.eqb_eq in He. subst. exact Hin.
    - intros Hin. exists r. split; [exact Hin | apply Nat.eqb_refl].
  Qed.

  Lemma init_fold_split l : forall L U,
    fold_left init_step l (L, U) =
    (fold_left (fun L i => fold_left (il_set i) (range (i + 1) n) (mset N L i i 1!)) l L,
     fold_left (fun U i => fold_left (iu_set i) (seq 0 (i + 1)) U) l U).
  Proof. induction l as [|i l IH]; intros L U; cbn [fold_left]; [reflexivity|]. unfold init_step at 2. apply IH. Qed.

  Lemma lcol_spec i (L : mat) r c : c < r ->
    fold_left (il_set i) (range (i + 1) n) (mset N L i i 1!) r c =
    if (c =? i) && (r <? n) && Ap r c then A r c else L r c.
  Proof.
    intros Hcr.
    destruct (sweep_spec Ap A i (range (i + 1) n) (range_NoDup (i + 1) n) (mset N L i i 1!)) as [S1 S2].
    cbv zeta in S1, S2. unfold il_set.
    destruct (Nat.eqb_spec c i) as [-> | Hne]; cbn [andb].
    - destruct (Nat.ltb_spec r n) as [Hrn | Hrn]; cbn [andb].
      + destruct (Ap r i) eqn:Ha.
        * apply S1; [apply range_In; lia | exact Ha].
        * rewrite S2 by (right; right; exact Ha). apply mset_other. left; lia.
      + rewrite S2 by (right; left; rewrite range_In; lia). apply mset_other. left; lia.
    - rewrite S2 by (left; exact Hne). apply mset_other. right; exact Hne.
  Qed.

  Lemma linit_spec m : forall (L : mat) r c, c < r ->
    fold_left (fun L i => fold_left (il_set i) (range (i + 1) n) (mset N L i i 1!)) (seq 0 m) L r c =
    if (c <? m) && (r <? n) && Ap r c then A r c else L r c.
  Proof.
    induction m as [|m IH]; intros L r c Hcr; [reflexivity|].
    rewrite seq_S, fold_left_app. cbn [fold_left plus]. rewrite lcol_spec by exact Hcr. rewrite IH by exact Hcr.
    destruct (Nat.eqb_spec c m) as [-> | Hne]; cbn [andb].
    - replace (m <? S m) with true by (symmetry; apply Nat.ltb_lt; lia).
      replace (m <? m) with false by (symmetry; apply Nat.ltb_ge; lia). cbn [andb].
      destruct ((r <? n) && Ap r m); reflexivity.
    - destruct (Nat.ltb_spec c m); destruct (Nat.ltb_spec c (S m)); try lia; reflexivity.
  Qed.

  (* ================= the diagonal of L: set to one at the start, never written again ================= *)
  Lemma lcol_diag i (L : mat) d :
    fold_left (il_set i) (range (i + 1) n) (mset N L i i 1!) d d = if d =? i then 1! else L d d.
  Proof.
    destruct (sweep_spec Ap A i (range (i + 1) n) (range_NoDup (i + 1) n) (mset N L i i 1!)) as [_ S2].
    cbv zeta in S2. unfold il_set.
    destruct (Nat.eqb_spec d i) as [-> | Hne].
    - rewrite S2 by (right; left; rewrite range_In; lia). apply mset_same.
    - rewrite S2 by (left; exact Hne). apply mset_other. left; exact Hne.
  Qed.

  Lemma linit_diag m : forall (L : mat) d,
    fold_left (fun L i => fold_left (il_set i) (range (i + 1) n) (mset N L i i 1!)) (seq 0 m) L d d =
    if d <? m then 1! else L d d.
  Proof.
    induction m as [|m IH]; intros L d; [reflexivity|].
    rewrite seq_S, fold_left_app. cbn [fold_left plus]. rewrite lcol_diag. rewrite IH.
    destruct (Nat.eqb_spec d m) as [-> | Hne].
    - replace (m <? S m) with true by (symmetry; apply Nat.ltb_lt; lia). reflexivity.
    - destruct (Nat.ltb_spec d m); destruct (Nat.ltb_spec d (S m)); try lia; reflexivity.
  Qed.

  Lemma init_L_diag L0 U0 d : d < n -> fst (init_LU L0 U0) d d = 1!.
  Proof.
    intros Hd. unfold init_LU. rewrite init_fold_split. cbn [fst snd].
    rewrite (sweeps_spec (fun j i => negb (Ap j i) && Lp j i) (fun _ _ => 0!) (fun i => range (i + 1) n) n
                         (fun i => range_NoDup (i + 1) n)).
    assert (Hin : existsb (Nat.eqb d) (range (d + 1) n) = false).
    { destruct (existsb (Nat.eqb d) (range (d + 1) n)) eqn:E; [|reflexivity].
      apply existsb_eqb_In in E. apply range_In in E. lia. }
    rewrite Hin. rewrite Bool.andb_false_r. cbn [andb]. rewrite linit_diag.
    destruct (Nat.ltb_spec d n); [reflexivity | lia].
  Qed.

  Lemma sep_step_diag i (L U : mat) d : i < n -> fst (sep_step (L, U) i) d d = L d d.
  Proof.
    intros Hi. unfold sep_step.
    set (inv := ndiv N 1! (U i i)). set (J := range (i + 1) n).
    assert (HJ : forall k, In k J <-> i < k /\ k < n) by (intros k; unfold J; rewrite range_In; lia).
    destruct (scale_spec N Lp i inv J (range_NoDup (i + 1) n) L) as [_ SC2].
    destruct (sep_outer_spec i J (range_NoDup (i + 1) n) (fun k Hk => proj1 (HJ k) Hk)
                             (fold_left (ms_step N Lp i inv) J L) U) as [_ [_ FL]].
    cbv zeta in SC2, FL. rewrite FL by (right; left; lia).
    apply SC2. destruct (Nat.eq_dec d i) as [-> | Hne]; [right; left; rewrite HJ; lia | left; exact Hne].
  Qed.

  Lemma sep_steps_diag m : m <= n -> forall (L U : mat) d,
    fst (fold_left sep_step (seq 0 m) (L, U)) d d = L d d.
  Proof.
    induction m as [|m IH]; intros Hm L U d; [reflexivity|].
    rewrite seq_S, fold_left_app. cbn [fold_left plus].
    assert (Hm' : m <= n) by lia. specialize (IH Hm' L U d).
    destruct (fold_left sep_step (seq 0 m) (L, U)) as [Lm Um]. cbn [fst] in IH.
    rewrite sep_step_diag by lia. exact IH.
  Qed.

  Theorem mozart_L_unit_diagonal L0 U0 d : d < n -> fst (mozart_num N n A Ap Lp Up L0 U0) d d = 1!.
  Proof.
    intros Hd. rewrite mozart_num_steps. rewrite (surjective_pairing (init_LU L0 U0)).
    rewrite sep_steps_diag by apply le_n. apply init_L_diag. exact Hd.
  Qed.

  Hypothesis HApU : forall r c, r <= c -> c < n -> Ap r c = true -> Up r c = true.
  Hypothesis HApL : forall r c, c < r -> r < n -> Ap r c = true -> Lp r c = true.

  Lemma init_inv L0 U0 : MInv2 0 (fst (init_LU L0 U0)) (snd (init_LU L0 U0)).
  Proof.
    unfold init_LU. rewrite init_fold_split. cbn [fst snd].
    assert (Hz : forall (L U : mat) r c, Ssum2 L U 0 r c = 0!) by (intros; reflexivity).
    split; [intros; lia | split; [intros; lia|]]. split.
    - intros r c _ Hrc Hc Hp. rewrite Hz.
      rewrite (sweeps_spec (fun j i => negb (Ap j i) && Up j i) (fun _ _ => 0!) (fun i => seq 0 (i + 1)) n
                           (fun i => seq_NoDup (i + 1) 0)).
      rewrite (sweeps_spec Ap A (fun i => seq 0 (i + 1)) n (fun i => seq_NoDup (i + 1) 0)).
      assert (Hin : existsb (Nat.eqb r) (seq 0 (c + 1)) = true) by (apply existsb_eqb_In; apply in_seq; lia).
      rewrite Hin. destruct (Nat.ltb_spec c n); [|lia]. cbn [andb]. rewrite Hp.
      unfold view. destruct (Ap r c); cbn [negb andb]; ring.
    - intros r c _ Hcr Hr Hp. rewrite Hz.
      rewrite (sweeps_spec (fun j i => negb (Ap j i) && Lp j i) (fun _ _ => 0!) (fun i => range (i + 1) n) n
                           (fun i => range_NoDup (i + 1) n)).
      rewrite linit_spec by exact Hcr.
      assert (Hin : existsb (Nat.eqb r) (range (c + 1) n) = true) by (apply existsb_eqb_In; apply range_In; lia).
      rewrite Hin. destruct (Nat.ltb_spec c n); [|lia]. destruct (Nat.ltb_spec r n); [|lia]. cbn [andb]. rewrite Hp.
      unfold view. destruct (Ap r c); cbn [negb andb]; ring.
  Qed.

  (* ================= the theorem ================= *)
  Hypothesis HdiagU : forall i, i < n -> Up i i = true.
  Hypothesis Hclosed2 : forall i j k, i < j -> i < k -> j < n -> k < n -> Lp j i = true -> Up i k = true ->
    (j <= k -> Up j k = true) /\ (k < j -> Lp j k = true).

  Theorem mozart_LU_eq_A L0 U0 :
    let LU := mozart_num N n A Ap Lp Up L0 U0 in
    let Lf := fun r c => if c <? r then view N Lp (fst LU) r c else if c =? r then 1! else 0! in
    let Uf := fun r c => if r <=? c then view N Up (snd LU) r c else 0! in
    (forall i, i < n -> snd LU i i <> 0!) ->
    forall r c, r < n -> c < n -> sum n (fun j => Lf r j *! Uf j c) = A' r c.
  Proof.
    intros LU Lf Uf Hpiv.
    pose proof (sep_steps_inv (fst (init_LU L0 U0)) (snd (init_LU L0 U0)) n (le_n n) (init_inv L0 U0)) as HI.
    rewrite <- surjective_pairing in HI. rewrite <- mozart_num_steps in HI. fold LU in HI.
    destruct HI as (IU & IL & _ & _).
    set (Lm := fst LU) in *. set (Um := snd LU) in *.
    assert (Hsum : forall r c m, m <= r -> m <= c -> r < n -> c < n ->
              Ssum2 Lm Um m r c = sum m (fun j => Lf r j *! Uf j c)).
    { intros r c m Hmr Hmc Hr Hc. unfold Ssum2, jsm2. rewrite (lsum_filter_seq N Nfield). apply (sum_ext N). intros j Hj.
      unfold Lf, Uf, view. fold Lm Um.
      destruct (Nat.ltb_spec j r); [|lia]. destruct (Nat.leb_spec j c); [|lia].
      destruct (Lp r j), (Up j c); cbn [andb]; ring. }
    assert (HA0u : forall r c, r <= c -> c < n -> Up r c = false -> A' r c = 0!).
    { intros r c Hrc Hc Hp. unfold view. destruct (Ap r c) eqn:E; [|reflexivity].
      rewrite (HApU r c Hrc Hc E) in Hp. discriminate. }
    assert (HA0l : forall r c, c < r -> r < n -> Lp r c = false -> A' r c = 0!).
    { intros r c Hcr Hr Hp. unfold view. destruct (Ap r c) eqn:E; [|reflexivity].
      rewrite (HApL r c Hcr Hr E) in Hp. discriminate. }
    apply (LU_eq_A N Nfield n A' Lf Uf).
    - intros i Hi. unfold Lf. rewrite Nat.ltb_irrefl, Nat.eqb_refl. reflexivity.
    - intros i j Hij Hj. unfold Lf. destruct (Nat.ltb_spec j i); [lia|]. destruct (Nat.eqb_spec j i); [lia|]. reflexivity.
    - intros i j Hji Hi. unfold Uf. destruct (Nat.leb_spec i j); [lia|]. reflexivity.
    - intros i k Hik Hk. assert (Hi : i < n) by lia.
      rewrite <- (Hsum i k i (le_n i) Hik Hi Hk).
      unfold Uf at 1. destruct (Nat.leb_spec i k); [|lia]. unfold view at 1. fold Um.
      destruct (Up i k) eqn:Hp.
      + apply IU; assumption.
      + rewrite (HA0u i k Hik Hk Hp).
        assert (Hz : Ssum2 Lm Um i i k = 0!).
        { unfold Ssum2, jsm2. rewrite (lsum_filter_seq N Nfield). apply (sum_zero N Nfield).
          intros j Hj. destruct (Lp i j) eqn:E1; destruct (Up j k) eqn:E2; cbn [andb]; try reflexivity.
          assert (Hjk : j < k) by lia.
          destruct (Hclosed2 j i k Hj Hjk Hi Hk E1 E2) as [Hc1 _]. rewrite (Hc1 Hik) in Hp. discriminate. }
        rewrite Hz. ring.
    - intros i k Hik Hk. assert (Hi : i < n) by lia.
      rewrite <- (Hsum k i i (Nat.lt_le_incl _ _ Hik) (le_n i) Hk Hi).
      assert (HUii : Uf i i = Um i i).
      { unfold Uf. rewrite Nat.leb_refl. unfold view. fold Um. rewrite (HdiagU i Hi). reflexivity. }
      rewrite HUii. unfold Lf at 1. destruct (Nat.ltb_spec i k); [|lia]. unfold view at 1. fold Lm.
      destruct (Lp k i) eqn:Hp.
      + rewrite (IL k i Hi Hik Hk Hp).
        assert (Hinv : ndiv N 1! (Um i i) *! Um i i = 1!) by (field; apply Hpiv; exact Hi).
        transitivity ((A' k i -! Ssum2 Lm Um i k i) *! (ndiv N 1! (Um i i) *! Um i i)); [ring|].
        rewrite Hinv. ring.
      + rewrite (HA0l k i Hik Hk Hp).
        assert (Hz : Ssum2 Lm Um i k i = 0!).
        { unfold Ssum2, jsm2. rewrite (lsum_filter_seq N Nfield). apply (sum_zero N Nfield).
          intros j Hj. destruct (Lp k j) eqn:E1; destruct (Up j i) eqn:E2; cbn [andb]; try reflexivity.
          assert (Hjk : j < k) by lia.
          destruct (Hclosed2 j k i Hjk Hj Hk Hi E1 E2) as [_ Hc2]. rewrite (Hc2 Hik) in Hp. discriminate. }
        rewrite Hz. ring.
  Qed.
End Mozart.

(* ------------------------------------------------------------------------------------------
   The symbolic phase (GetLUMatrices): A's pattern split into L and U, closed under the elimination's fill-in. *)
Section SymbolicMozart.
  Variable n : nat.
  Variable Ap : pat.

  (* sweeps that only add entries, chosen by a test that does not look at the pattern being built *)
  Lemma psweep_spec {X} (test : X -> bool) (rr cc : X -> nat) (xs : list X) : forall (P : pat),
    let P' := fold_left (fun P x => if test x then pset P (rr x) (cc x) else P) xs P in
    (forall x, In x xs -> test x = true -> P' (rr x) (cc x) = true) /\
    (forall r c, P r c = true -> P' r c = true) /\
    (forall r c, (forall x, In x xs -> test x = true -> r <> rr x \/ c <> cc x) -> P' r c = P r c).
  Proof.
    induction xs as [|x xs IH]; intros P; cbn [fold_left].
    - split; [intros x [] | split; [auto | reflexivity]].
    - destruct (IH (if test x then pset P (rr x) (cc x) else P)) as [I1 [Im I2]].
      split; [|split].
      + intros y [<- | Hy] Ht.
        * apply Im. rewrite Ht. apply pset_same.
        * apply I1; assumption.
      + intros r c H. apply Im. destruct (test x); [apply pset_mono; exact H | exact H].
      + intros r c H. rewrite I2 by (intros y Hy; apply H; right; exact Hy).
        destruct (test x) eqn:Ht; [|reflexivity]. apply pset_other. apply (H x (or_introl eq_refl) Ht).
  Qed.

  (* ---------- phase 1: copies of A's pattern ---------- *)
  Definition ph1_step (LU : pat * pat) (i : nat) : pat * pat :=
    let (Lp, Up) := LU in
    (fold_left (fun Lp j => if Ap i j then pset Lp i j else Lp) (seq 0 i) (pset Lp i i),
     fold_left (fun Up j => if Ap i j then pset Up i j else Up) (range i n) Up).

  Lemma ph1_spec m : m <= n -> forall Lp Up,
    let LU := fold_left ph1_step (seq 0 m) (Lp, Up) in
    (forall r c, r < m -> r <= c -> c < n -> Ap r c = true -> snd LU r c = true) /\
    (forall r c, r < m -> c < r -> Ap r c = true -> fst LU r c = true) /\
    (forall r c, Lp r c = true -> fst LU r c = true) /\ (forall r c, Up r c = true -> snd LU r c = true).
  Proof.
    induction m as [|m IH]; intros Hm Lp Up; cbv zeta.
    - cbn. repeat split; auto; intros; lia.
    - rewrite seq_S, fold_left_app. cbn [fold_left plus].
      destruct (IH ltac:(lia) Lp Up) as (I1 & I2 & I3 & I4). cbv zeta in I1, I2, I3, I4.
      destruct (fold_left ph1_step (seq 0 m) (Lp, Up)) as [L1 U1]. cbn [fst snd] in *.
      unfold ph1_step. cbn [fst snd].
      destruct (psweep_spec (fun j => Ap m j) (fun _ => m) (fun j => j) (seq 0 m) (pset L1 m m)) as [SL1 [SLm _]].
      destruct (psweep_spec (fun j => Ap m j) (fun _ => m) (fun j => j) (range m n) U1) as [SU1 [SUm _]].
      cbv zeta in SL1, SLm, SU1, SUm.
      repeat split.
      + intros r c Hr Hrc Hc Ha. destruct (Nat.eq_dec r m) as [-> | Hne].
        * apply (SU1 c); [apply range_In; lia | exact Ha].
        * apply SUm. apply I1; try lia; exact Ha.
      + intros r c Hr Hcr Ha. destruct (Nat.eq_dec r m) as [-> | Hne].
        * apply (SL1 c); [apply in_seq; lia | exact Ha].
        * apply SLm. apply pset_mono. apply I2; try lia; exact Ha.
      + intros r c H. apply SLm. apply pset_mono. apply I3. exact H.
      + intros r c H. apply SUm. apply I4. exact H.
  Qed.

  (* ---------- phase 2: the elimination's fill-in ---------- *)
  Definition f2_k (i : nat) (LU : pat * pat) (k : nat) : pat * pat :=
    let (Lp, Up) := LU in
    if Up i k then
      (fold_left (fun (Lq : pat) j => if Lq j i then pset Lq j k else Lq) (range (k + 1) n) Lp,
       fold_left (fun Up j => if Lp j i then pset Up j k else Up) (range (i + 1) (k + 1)) Up)
    else (Lp, Up).
  Definition f2_step (LU : pat * pat) (i : nat) : pat * pat :=
    let (Lp, Up) := LU in
    fold_left (f2_k i) (range (i + 1) n)
              (fold_left (fun Lp j => if Ap j i then pset Lp j i else Lp) (range (i + 1) n) Lp, Up).

  Lemma mozart_sym_steps :
    mozart_sym n Ap = fold_left f2_step (seq 0 n) (fold_left ph1_step (seq 0 n) (pempty, pempty)).
  Proof. reflexivity. Qed.

  (* one column k > i *)
  Lemma f2_k_spec i k Lp Up : i < k ->
    let Lp' := fst (f2_k i (Lp, Up) k) in
    let Up' := snd (f2_k i (Lp, Up) k) in
    (Up i k = true -> forall j, i < j -> j < n -> Lp j i = true ->
       (j <= k -> Up' j k = true) /\ (k < j -> Lp' j k = true)) /\
    (forall r c, Lp r c = true -> Lp' r c = true) /\ (forall r c, Up r c = true -> Up' r c = true) /\
    (forall r c, c <> k \/ r <= k -> Lp' r c = Lp r c) /\ (forall r c, c <> k \/ r <= i -> Up' r c = Up r c).
  Proof.
    intros Hik. unfold f2_k. destruct (Up i k) eqn:Hup; cbn [fst snd].
    - destruct (qi_spec i k (range (k + 1) n) Hik (range_NoDup (k + 1) n) Lp) as [L1 [Lm L2]].
      destruct (psweep_spec (fun j => Lp j i) (fun j => j) (fun _ => k) (range (i + 1) (k + 1)) Up) as [U1 [Um U2]].
      cbv zeta in L1, Lm, L2, U1, Um, U2. unfold qi_step in L1, Lm, L2.
      repeat split.
      + intros Hjk. apply (U1 j); [apply range_In; lia | exact H2].
      + intros Hkj. apply (L1 j); [apply range_In; lia | exact H2].
      + exact Lm.
      + exact Um.
      + intros r c [Hc | Hr]; apply L2; [left; exact Hc | right; left; rewrite range_In; lia].
      + intros r c [Hc | Hr]; apply U2; intros x Hx _; apply range_In in Hx; [right; exact Hc | left; lia].
    - repeat split; try discriminate; auto.
  Qed.

  Lemma f2_outer_spec i ks : NoDup ks -> (forall k, In k ks -> i < k) -> forall Lp Up,
    let Lp' := fst (fold_left (f2_k i) ks (Lp, Up)) in
    let Up' := snd (fold_left (f2_k i) ks (Lp, Up)) in
    (forall k j, In k ks -> Up i k = true -> i < j -> j < n -> Lp j i = true ->
       (j <= k -> Up' j k = true) /\ (k < j -> Lp' j k = true)) /\
    (forall r c, Lp r c = true -> Lp' r c = true) /\ (forall r c, Up r c = true -> Up' r c = true) /\
    (forall r c, ~ In c ks \/ r <= c -> Lp' r c = Lp r c) /\ (forall r c, ~ In c ks \/ r <= i -> Up' r c = Up r c).
  Proof.
    induction ks as [|k ks IH]; intros Hnd Hks Lp Up; cbn [fold_left].
    - cbn [fst snd]. split; [intros k0 j0 [] | repeat split; auto].
    - inversion Hnd as [|? ? Hnk Hnd']; subst.
      pose proof (Hks k (or_introl eq_refl)) as Hik.
      destruct (f2_k_spec i k Lp Up Hik) as (S1 & SLm & SUm & SL & SU). cbv zeta in S1, SLm, SUm, SL, SU.
      destruct (f2_k i (Lp, Up) k) as [L1 U1]. cbn [fst snd] in *.
      destruct (IH Hnd' (fun k' Hk' => Hks k' (or_intror Hk')) L1 U1) as (I1 & ILm & IUm & IL & IU).
      cbv zeta in I1, ILm, IUm, IL, IU.
      assert (Hrow : forall c, U1 i c = Up i c) by (intros c; apply SU; right; lia).
      assert (Hcol : forall r, L1 r i = Lp r i) by (intros r; apply SL; left; lia).
      cbv zeta. split; [|split; [|split; [|split]]].
      + intros k0 j Hin Hup Hij Hjn Hlp. destruct Hin as [<- | Hk'].
        * destruct (S1 Hup j Hij Hjn Hlp) as [Su Sl]. split; intros H; [apply IUm; apply Su; exact H | apply ILm; apply Sl; exact H].
        * apply (I1 k0 j Hk'); [rewrite Hrow; exact Hup | exact Hij | exact Hjn | rewrite Hcol; exact Hlp].
      + intros r c H. apply ILm. apply SLm. exact H.
      + intros r c H. apply IUm. apply SUm. exact H.
      + intros r c Hne. rewrite IL.
        * apply SL. destruct Hne as [Hc | Hr]; [left; intros ->; apply Hc; left; reflexivity|].
          destruct (Nat.eq_dec c k) as [-> | Hck]; [right; exact Hr | left; exact Hck].
        * destruct Hne as [Hc | Hr]; [left; intros Hin; apply Hc; right; exact Hin | right; exact Hr].
      + intros r c Hne. rewrite IU.
        * apply SU. destruct Hne as [Hc | Hr]; [left; intros ->; apply Hc; left; reflexivity | right; exact Hr].
        * destruct Hne as [Hc | Hr]; [left; intros Hin; apply Hc; right; exact Hin | right; exact Hr].
  Qed.

  Definition FInv (m : nat) (L0 U0 Lp Up : pat) : Prop :=
    (forall r c, L0 r c = true -> Lp r c = true) /\ (forall r c, U0 r c = true -> Up r c = true) /\
    (forall i j k, i < m -> i < j -> i < k -> j < n -> k < n -> Lp j i = true -> Up i k = true ->
       (j <= k -> Up j k = true) /\ (k < j -> Lp j k = true)).

  Lemma f2_step_inv i L0 U0 Lp Up : i < n -> FInv i L0 U0 Lp Up ->
    FInv (S i) L0 U0 (fst (f2_step (Lp, Up) i)) (snd (f2_step (Lp, Up) i)).
  Proof.
    intros Hi (HmL & HmU & Hclo). unfold f2_step.
    destruct (psweep_spec (fun j => Ap j i) (fun j => j) (fun _ => i) (range (i + 1) n) Lp) as [_ [Q1m Q1f]].
    cbv zeta in Q1m, Q1f.
    set (Lq := fold_left (fun Lp j => if Ap j i then pset Lp j i else Lp) (range (i + 1) n) Lp) in *.
    assert (HJ : forall k, In k (range (i + 1) n) <-> i < k /\ k < n) by (intros k; rewrite range_In; lia).
    destruct (f2_outer_spec i (range (i + 1) n) (range_NoDup (i + 1) n) (fun k Hk => proj1 (proj1 (HJ k) Hk)) Lq Up)
      as (O1 & OLm & OUm & OL & OU). cbv zeta in O1, OLm, OUm, OL, OU.
    set (L2 := fst (fold_left (f2_k i) (range (i + 1) n) (Lq, Up))) in *.
    set (U2 := snd (fold_left (f2_k i) (range (i + 1) n) (Lq, Up))) in *.
    (* columns of L up to i-1 and rows of U up to i are left alone by this step *)
    assert (FLq : forall r c, c <> i -> Lq r c = Lp r c).
    { intros r c Hc. apply Q1f. intros x _ _. right; exact Hc. }
    assert (FL : forall r c, c < i -> L2 r c = Lp r c).
    { intros r c Hc. rewrite OL by (left; rewrite HJ; lia). apply FLq. lia. }
    assert (FLi : forall r, L2 r i = Lq r i) by (intros r; apply OL; left; rewrite HJ; lia).
    assert (FU : forall r c, r <= i -> U2 r c = Up r c) by (intros r c Hr; apply OU; right; exact Hr).
    split; [|split].
    - intros r c H. apply OLm. apply Q1m. apply HmL. exact H.
    - intros r c H. apply OUm. apply HmU. exact H.
    - intros i0 j k Hi0 Hj Hk Hjn Hkn Hp1 Hp2.
      destruct (Nat.eq_dec i0 i) as [-> | Hne].
      + rewrite FLi in Hp1. rewrite FU in Hp2 by lia.
        apply (O1 k j); [apply HJ; lia | exact Hp2 | exact Hj | exact Hjn | exact Hp1].
      + assert (Hlt : i0 < i) by lia.
        rewrite FL in Hp1 by exact Hlt. rewrite FU in Hp2 by lia.
        destruct (Hclo i0 j k Hlt Hj Hk Hjn Hkn Hp1 Hp2) as [C1 C2].
        split; intros H; [apply OUm; apply C1; exact H | apply OLm; apply Q1m; apply C2; exact H].
  Qed.

  Lemma f2_steps_inv L0 U0 m : m <= n ->
    FInv m L0 U0 (fst (fold_left f2_step (seq 0 m) (L0, U0))) (snd (fold_left f2_step (seq 0 m) (L0, U0))).
  Proof.
    induction m as [|m IH]; intros Hm.
    - cbn. split; [auto | split; [auto | intros; lia]].
    - rewrite seq_S, fold_left_app. cbn [fold_left plus].
      specialize (IH ltac:(lia)).
      destruct (fold_left f2_step (seq 0 m) (L0, U0)) as [Lm Um]. cbn [fst snd] in IH.
      apply f2_step_inv; [lia | exact IH].
  Qed.

  Theorem mozart_sym_closed :
    let Lp := fst (mozart_sym n Ap) in
    let Up := snd (mozart_sym n Ap) in
    (forall r c, r <= c -> c < n -> Ap r c = true -> Up r c = true) /\
    (forall r c, c < r -> r < n -> Ap r c = true -> Lp r c = true) /\
    (forall i j k, i < j -> i < k -> j < n -> k < n -> Lp j i = true -> Up i k = true ->
       (j <= k -> Up j k = true) /\ (k < j -> Lp j k = true)).
  Proof.
    cbv zeta. rewrite mozart_sym_steps.
    destruct (ph1_spec n (le_n n) pempty pempty) as (P1 & P2 & _ & _). cbv zeta in P1, P2.
    destruct (fold_left ph1_step (seq 0 n) (pempty, pempty)) as [L1 U1]. cbn [fst snd] in P1, P2.
    destruct (f2_steps_inv L1 U1 n (le_n n)) as (HmL & HmU & Hclo).
    split; [|split].
    - intros r c Hrc Hc Ha. apply HmU. apply P1; try lia; exact Ha.
    - intros r c Hcr Hr Ha. apply HmL. apply P2; try lia; exact Ha.
    - intros i j k Hij Hik Hj Hk. apply Hclo; lia.
  Qed.

  (* ---------- both patterns are triangular, and L's holds the whole diagonal ---------- *)
  Definition TriP (Lp Up : pat) : Prop :=
    (forall r c, Lp r c = true -> c <= r) /\ (forall r c, Up r c = true -> r <= c).

  Lemma ph1_step_tri i Lp Up : TriP Lp Up -> TriP (fst (ph1_step (Lp, Up) i)) (snd (ph1_step (Lp, Up) i)).
  Proof.
    intros [TL TU]. unfold ph1_step. cbn [fst snd].
    destruct (psweep_spec (fun j => Ap i j) (fun _ => i) (fun j => j) (seq 0 i) (pset Lp i i)) as [_ [_ F1]].
    destruct (psweep_spec (fun j => Ap i j) (fun _ => i) (fun j => j) (range i n) Up) as [_ [_ F2]].
    cbv beta zeta in F1, F2. split.
    - intros r c H. destruct (Nat.le_gt_cases c r) as [Hle | Hgt]; [exact Hle|].
      rewrite F1 in H.
      + assert (Hne : r <> i \/ c <> i) by lia. rewrite (pset_other Lp i i r c Hne) in H. apply TL in H. lia.
      + intros x Hx _. apply in_seq in Hx. lia.
    - intros r c H. destruct (Nat.le_gt_cases r c) as [Hle | Hgt]; [exact Hle|].
      rewrite F2 in H; [apply TU in H; lia|].
      intros x Hx _. apply range_In in Hx. lia.
  Qed.

  Lemma ph1_tri m : forall Lp Up, TriP Lp Up ->
    TriP (fst (fold_left ph1_step (seq 0 m) (Lp, Up))) (snd (fold_left ph1_step (seq 0 m) (Lp, Up))).
  Proof.
    induction m as [|m IH]; intros Lp Up HT; [exact HT|].
    rewrite seq_S, fold_left_app. cbn [fold_left plus]. specialize (IH Lp Up HT).
    destruct (fold_left ph1_step (seq 0 m) (Lp, Up)) as [L1 U1]. cbn [fst snd] in IH.
    apply ph1_step_tri. exact IH.
  Qed.

  Lemma ph1_diag m : forall Lp Up i, i < m -> fst (fold_left ph1_step (seq 0 m) (Lp, Up)) i i = true.
  Proof.
    induction m as [|m IH]; intros Lp Up i Hi; [lia|].
    rewrite seq_S, fold_left_app. cbn [fold_left plus]. specialize (IH Lp Up).
    destruct (fold_left ph1_step (seq 0 m) (Lp, Up)) as [L1 U1]. cbn [fst snd] in IH.
    unfold ph1_step. cbn [fst].
    destruct (psweep_spec (fun j => Ap m j) (fun _ => m) (fun j => j) (seq 0 m) (pset L1 m m)) as [_ [SLm _]].
    cbv beta zeta in SLm. apply SLm.
    destruct (Nat.eq_dec i m) as [-> | Hne]; [apply pset_same | apply pset_mono; apply IH; lia].
  Qed.

  Lemma f2_k_tri i k Lp Up : i < k -> TriP Lp Up -> TriP (fst (f2_k i (Lp, Up) k)) (snd (f2_k i (Lp, Up) k)).
  Proof.
    intros Hik [TL TU].
    destruct (f2_k_spec i k Lp Up Hik) as (_ & _ & _ & FL & _). cbv zeta in FL.
    split.
    - intros r c H. destruct (Nat.le_gt_cases c r) as [Hle | Hgt]; [exact Hle|].
      rewrite FL in H; [apply TL in H; lia|].
      destruct (Nat.eq_dec c k); [right; lia | left; assumption].
    - intros r c H. destruct (Nat.le_gt_cases r c) as [Hle | Hgt]; [exact Hle|].
      unfold f2_k in H. destruct (Up i k) eqn:E; cbn [snd] in H; [|apply TU in H; lia].
      destruct (psweep_spec (fun j => Lp j i) (fun j => j) (fun _ => k) (range (i + 1) (k + 1)) Up) as [_ [_ U2]].
      cbv beta zeta in U2. rewrite U2 in H; [apply TU in H; lia|].
      intros x Hx _. apply range_In in Hx. destruct (Nat.eq_dec c k); [left; lia | right; assumption].
  Qed.

  Lemma f2_outer_tri i ks : (forall k, In k ks -> i < k) -> forall Lp Up, TriP Lp Up ->
    TriP (fst (fold_left (f2_k i) ks (Lp, Up))) (snd (fold_left (f2_k i) ks (Lp, Up))).
  Proof.
    induction ks as [|k ks IH]; intros Hks Lp Up HT; cbn [fold_left]; [exact HT|].
    rewrite (surjective_pairing (f2_k i (Lp, Up) k)).
    apply IH; [intros k' Hk'; apply Hks; right; exact Hk' | apply f2_k_tri; [apply Hks; left; reflexivity | exact HT]].
  Qed.

  Lemma f2_step_tri i Lp Up : TriP Lp Up -> TriP (fst (f2_step (Lp, Up) i)) (snd (f2_step (Lp, Up) i)).
  Proof.
    intros [TL TU]. unfold f2_step.
    apply f2_outer_tri; [intros k Hk; apply range_In in Hk; lia|].
    destruct (psweep_spec (fun j => Ap j i) (fun j => j) (fun _ => i) (range (i + 1) n) Lp) as [_ [_ Q1f]].
    cbv beta zeta in Q1f. split; [|exact TU].
    intros r c H. destruct (Nat.le_gt_cases c r) as [Hle | Hgt]; [exact Hle|].
    rewrite Q1f in H; [apply TL in H; lia|].
    intros x Hx _. apply range_In in Hx. destruct (Nat.eq_dec c i); [left; lia | right; assumption].
  Qed.

  Lemma f2_steps_tri m : forall Lp Up, TriP Lp Up ->
    TriP (fst (fold_left f2_step (seq 0 m) (Lp, Up))) (snd (fold_left f2_step (seq 0 m) (Lp, Up))).
  Proof.
    induction m as [|m IH]; intros Lp Up HT; [exact HT|].
    rewrite seq_S, fold_left_app. cbn [fold_left plus]. specialize (IH Lp Up HT).
    destruct (fold_left f2_step (seq 0 m) (Lp, Up)) as [L1 U1]. cbn [fst snd] in IH.
    apply f2_step_tri. exact IH.
  Qed.

  Theorem mozart_sym_triangular :
    let Lp := fst (mozart_sym n Ap) in
    let Up := snd (mozart_sym n Ap) in
    (forall r c, Lp r c = true -> c <= r) /\ (forall r c, Up r c = true -> r <= c) /\
    (forall i, i < n -> Lp i i = true).
  Proof.
    cbv zeta. rewrite mozart_sym_steps.
    pose proof (ph1_tri n pempty pempty) as HT1. pose proof (ph1_diag n pempty pempty) as HD1.
    destruct (fold_left ph1_step (seq 0 n) (pempty, pempty)) as [L1 U1]. cbn [fst snd] in HT1, HD1.
    assert (HT0 : TriP pempty pempty) by (split; intros r c H; discriminate H).
    destruct (f2_steps_tri n L1 U1 (HT1 HT0)) as [TL TU].
    destruct (f2_steps_inv L1 U1 n (le_n n)) as (HmL & _ & _).
    split; [exact TL | split; [exact TU|]].
    intros i Hi. apply HmL. apply HD1. exact Hi.
  Qed.
End SymbolicMozart.

Theorem mozart_decomposition_correct :
  forall (N : Num)
    (Nfield : field_theory (n0 N) (n1 N) (nadd N) (nmul N) (nsub N) (nopp N) (ndiv N) (ninv N) eq)
    n (A : mat N) (Ap : pat) (L0 U0 : mat N),
    (forall i, i < n -> Ap i i = true) ->
    let Lp := fst (mozart_sym n Ap) in
    let Up := snd (mozart_sym n Ap) in
    let LU := mozart_num N n A Ap Lp Up L0 U0 in
    let Lf := fun r c => if c <? r then view N Lp (fst LU) r c else if c =? r then n1 N else n0 N in
    let Uf := fun r c => if r <=? c then view N Up (snd LU) r c else n0 N in
    (forall i, i < n -> snd LU i i <> n0 N) ->
    forall r c, r < n -> c < n -> nsum N n (fun j => nmul N (Lf r j) (Uf j c)) = view N Ap A r c.
Proof.
  intros N Nfield n A Ap L0 U0 Hd Lp Up LU Lf Uf Hpiv r c Hr Hc.
  destruct (mozart_sym_closed n Ap) as (HU & HL & Hclo). fold Lp Up in HU, HL, Hclo.
  exact (mozart_LU_eq_A N Nfield n A Ap Lp Up HU HL (fun i Hi => HU i i (le_n i) Hi (Hd i Hi)) Hclo L0 U0 Hpiv r c Hr Hc).
Qed.

(* ------------------------------------------------------------------------------------------
   Factor, then solve (LuDecompositionMozart + LinearSolver): A x = b. *)
Theorem mozart_factor_then_solve :
  forall (N : Num)
    (Nfield : field_theory (n0 N) (n1 N) (nadd N) (nmul N) (nsub N) (nopp N) (ndiv N) (ninv N) eq)
    n (A : mat N) (Ap : pat) (L0 U0 : mat N) (b : vec N),
    (forall i, i < n -> Ap i i = true) ->
    let Lp := fst (mozart_sym n Ap) in
    let Up := snd (mozart_sym n Ap) in
    let LU := mozart_num N n A Ap Lp Up L0 U0 in
    (forall i, i < n -> snd LU i i <> n0 N) ->
    let x := lin_solve N n Lp Up (fst LU) (snd LU) b in
    forall r, r < n -> nsum N n (fun c => nmul N (view N Ap A r c) (x c)) = b r.
Proof.
  intros N Nfield n A Ap L0 U0 b Hd Lp Up LU Hpiv x r Hr.
  destruct (mozart_sym_closed n Ap) as (HU & _ & _). fold Lp Up in HU.
  destruct (mozart_sym_triangular n Ap) as (TL & TU & TD). fold Lp Up in TL, TU, TD.
  assert (HL1 : forall i, i < n -> fst LU i i = n1 N) by (intros i Hi; apply mozart_L_unit_diagonal; exact Hi).
  assert (H10 : n1 N <> n0 N) by (destruct Nfield as [_ H _ _]; exact H).
  apply (lin_solve_Ax_b N Nfield n (view N Ap A) Lp Up (fst LU) (snd LU) b).
  - exact TL.
  - exact TU.
  - intros i Hi. repeat split; [apply TD; exact Hi | apply (HU i i (le_n i) Hi (Hd i Hi)) | rewrite (HL1 i Hi); exact H10 | apply Hpiv; exact Hi].
  - intros r0 c0 Hr0 Hc0.
    rewrite <- (mozart_decomposition_correct N Nfield n A Ap L0 U0 Hd Hpiv r0 c0 Hr0 Hc0).
    apply (sum_ext N). intros j Hj. fold Lp Up LU. f_equal.
    + unfold view. destruct (Nat.ltb_spec j r0) as [H|H]; [reflexivity|].
      destruct (Nat.eqb_spec j r0) as [-> | Hne].
      * rewrite (TD r0 Hr0). apply HL1. exact Hr0.
      * destruct (Lp r0 j) eqn:E; [apply TL in E; lia | reflexivity].
    + unfold view. destruct (Nat.leb_spec j c0) as [H|H]; [reflexivity|].
      destruct (Up j c0) eqn:E; [apply TU in E; lia | reflexivity].
  - exact Hr.
Qed.
