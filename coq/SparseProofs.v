(* SparseProofs.v — the compressed tables of the four sparse orderings:
   the ordered element set, the start table (loop as coded), the std::find lookup.
   Main results: sp_find returns the position of (major, minor) in the ordered element list,
   hence VectorIndex is injective and in range on the pattern, blocks never alias, and
   structural zeros are exactly the pairs outside the pattern. *)
From Model Require Import Base BaseProofs Dense DenseProofs Sparse.
Local Open Scope nat_scope.

(* ---------------- the ordered set ---------------- *)
Definition plt (a b : nat * nat) : Prop := fst a < fst b \/ (fst a = fst b /\ snd a < snd b).

Lemma pair_ltb_spec a b : pair_ltb a b = true <-> plt a b.
Proof.
  unfold pair_ltb, plt. rewrite orb_true_iff, andb_true_iff, !Nat.ltb_lt, Nat.eqb_eq. tauto.
Qed.
Lemma pair_eqb_spec a b : pair_eqb a b = true <-> a = b.
Proof.
  unfold pair_eqb. rewrite andb_true_iff, !Nat.eqb_eq. destruct a, b; simpl. split.
  - intros [-> ->]; reflexivity.
  - intros E; inversion E; auto.
Qed.

Fixpoint ssorted (l : list (nat * nat)) : Prop :=
  match l with
  | [] => True
  | x :: t => (forall y, In y t -> plt x y) /\ ssorted t
  end.

Lemma plt_trans a b c : plt a b -> plt b c -> plt a c.
Proof. unfold plt; intros; lia. Qed.
Lemma plt_irrefl a : ~ plt a a.
Proof. unfold plt; lia. Qed.

Lemma set_insert_in x l y : In y (set_insert x l) <-> y = x \/ In y l.
Proof.
  induction l as [|h t IH]; simpl; [intuition|].
  destruct (pair_eqb x h) eqn:E1.
  - apply pair_eqb_spec in E1; subst. simpl. intuition.
  - destruct (pair_ltb x h) eqn:E2; simpl; [intuition|]. rewrite IH. intuition.
Qed.

Lemma set_insert_sorted x l : ssorted l -> ssorted (set_insert x l).
Proof.
  induction l as [|h t IH]; simpl; intros Hs; [split; [intros ? []|exact I]|].
  destruct Hs as [Hh Ht].
  destruct (pair_eqb x h) eqn:E1; [simpl; auto|].
  destruct (pair_ltb x h) eqn:E2.
  - apply pair_ltb_spec in E2. simpl. split; [|split; auto].
    intros y [<-|Hy]; auto. eapply plt_trans; eauto.
  - simpl. split; [|apply IH; auto].
    intros y Hy. apply set_insert_in in Hy. destruct Hy as [->|Hy]; [|auto].
    assert (~ plt x h) by (rewrite <- pair_ltb_spec; congruence).
    assert (x <> h) by (rewrite <- pair_eqb_spec; congruence).
    destruct x as [x1 x2], h as [h1 h2]; unfold plt in *; simpl in *.
    assert (~ (x1 = h1 /\ x2 = h2)) by (intros [-> ->]; auto). lia.
Qed.

Lemma set_of_spec l : ssorted (set_of l) /\ (forall y, In y (set_of l) <-> In y l).
Proof.
  unfold set_of.
  assert (G : forall acc, ssorted acc ->
            ssorted (fold_left (fun s x => set_insert x s) l acc) /\
            (forall y, In y (fold_left (fun s x => set_insert x s) l acc) <-> In y acc \/ In y l)).
  { induction l as [|x l IH]; intros acc Ha; simpl; [intuition|].
    destruct (IH (set_insert x acc) (set_insert_sorted x acc Ha)) as [H1 H2].
    split; auto. intros y. rewrite H2, set_insert_in. intuition. }
  destruct (G [] I) as [H1 H2]. split; auto. intros y. rewrite H2. simpl. tauto.
Qed.

Lemma ssorted_NoDup l : ssorted l -> NoDup l.
Proof.
  induction l as [|x t IH]; simpl; intros H; constructor.
  - intros Hin. destruct H as [H _]. apply (plt_irrefl x); auto.
  - apply IH; tauto.
Qed.

(* non-decreasing majors, strictly increasing minors within a major *)
Fixpoint sorted_fst (l : list (nat * nat)) : Prop :=
  match l with
  | [] => True
  | x :: t => (forall y, In y t -> fst x <= fst y) /\ sorted_fst t
  end.
Lemma ssorted_sorted_fst l : ssorted l -> sorted_fst l.
Proof.
  induction l as [|x t IH]; simpl; auto. intros [H Ht]. split; auto.
  intros y Hy. specialize (H y Hy). unfold plt in H. lia.
Qed.

(* ---------------- the start table ---------------- *)
Definition count_lt (l : list (nat * nat)) (j : nat) : nat := length (filter (fun e => fst e <? j) l).

Lemma for_n_upd_range (k base v : nat) (s : list nat) j :
  nth j (for_n k (fun i s => upd (base + i + 1) v s) s) 0 =
  if (base <? j) && (j <=? base + k) && (j <? length s) then v else nth j s 0.
Proof.
  induction k as [|k IH]; simpl.
  - destruct (Nat.ltb_spec base j), (Nat.leb_spec j (base + 0)); simpl; auto; lia.
  - rewrite nth_upd, IH.
    assert (Hlen : length (for_n k (fun i s => upd (base + i + 1) v s) s) = length s).
    { clear. induction k; simpl; auto. rewrite upd_length; auto. }
    rewrite Hlen.
    destruct (Nat.eqb_spec (base + k + 1) j) as [E|NE]; simpl.
    + subst j. destruct (Nat.ltb_spec (base + k + 1) (length s)); simpl.
      * destruct (Nat.ltb_spec base (base + k + 1)), (Nat.leb_spec (base + k + 1) (base + S k)); simpl; auto; lia.
      * destruct (Nat.ltb_spec base (base + k + 1)); simpl;
          destruct (Nat.leb_spec (base + k + 1) (base + k)); simpl;
          destruct (Nat.leb_spec (base + k + 1) (base + S k)); simpl; auto; try lia.
    + destruct (Nat.ltb_spec base j); simpl; auto.
      destruct (Nat.leb_spec j (base + k)), (Nat.leb_spec j (base + S k)); simpl; auto; lia.
Qed.

Lemma for_n_upd_length (k base v : nat) (s : list nat) :
  length (for_n k (fun i s => upd (base + i + 1) v s) s) = length s.
Proof. induction k; simpl; auto. rewrite upd_length; auto. Qed.

Definition last_major (es : list (nat * nat)) (curr : nat) : nat := fst (last es (curr, 0)).

Lemma count_lt_zero l j : (forall x, In x l -> j <= fst x) -> count_lt l j = 0.
Proof.
  unfold count_lt. induction l as [|x t IH]; simpl; auto. intros H.
  destruct (Nat.ltb_spec (fst x) j) as [Hlt|Hge].
  - specialize (H x (or_introl eq_refl)). lia.
  - apply IH. intros; apply H; auto.
Qed.

Lemma count_lt_all l j : (forall x, In x l -> fst x < j) -> count_lt l j = length l.
Proof.
  unfold count_lt. induction l as [|x t IH]; simpl; auto. intros H.
  destruct (Nat.ltb_spec (fst x) j) as [Hlt|Hge].
  - simpl. f_equal. apply IH. intros; apply H; auto.
  - specialize (H x (or_introl eq_refl)). lia.
Qed.

Lemma last_nonempty_default {A} (x : A) l d d' : last (x :: l) d = last (x :: l) d'.
Proof. revert x; induction l as [|y l IH]; intros x; [reflexivity|]. 
  change (last (y :: l) d = last (y :: l) d'). apply IH. Qed.

Lemma last_major_cons e es curr : last_major (e :: es) curr = last_major es (fst e).
Proof.
  unfold last_major. destruct es as [|e' es']; [reflexivity|].
  change (last (e :: e' :: es') (curr, 0)) with (last (e' :: es') (curr, 0)).
  f_equal. apply last_nonempty_default.
Qed.

Lemma count_lt_cons e es j : count_lt (e :: es) j = (if fst e <? j then 1 else 0) + count_lt es j.
Proof. unfold count_lt; simpl. destruct (fst e <? j); reflexivity. Qed.

Lemma start_loop_spec es : forall curr total starts,
  sorted_fst es -> (forall x, In x es -> curr <= fst x) ->
  (forall x, In x es -> fst x + 1 < length starts) ->
  let '(curr', total', starts') := start_loop es curr total starts in
  total' = total + length es /\ curr' = last_major es curr /\ curr <= curr' /\
  length starts' = length starts /\
  forall j, nth j starts' 0 =
            if (curr <? j) && (j <=? curr') then total + count_lt es j else nth j starts 0.
Proof.
  induction es as [|e es IH]; intros curr total starts Hs Hc Hb.
  - cbn [start_loop length]. split; [lia|]. split; [reflexivity|]. split; [lia|]. split; [reflexivity|].
    intros j. unfold last_major; simpl.
    destruct (Nat.ltb_spec curr j), (Nat.leb_spec j curr); simpl; auto; lia.
  - simpl in Hs. destruct Hs as [Hle Hs].
    assert (Hce : curr <= fst e) by (apply Hc; simpl; auto).
    cbn [start_loop].
    set (k := fst e - curr).
    set (starts1 := for_n k (fun i s => upd (curr + i + 1) total s) starts).
    assert (Hk : curr + k = fst e) by (unfold k; lia).
    specialize (IH (curr + k) (S total) starts1 Hs).
    destruct (start_loop es (curr + k) (S total) starts1) as [[curr' total'] starts'].
    assert (Hlen1 : length starts1 = length starts) by apply for_n_upd_length.
    destruct IH as [Ht [Hcu [Hmono [Hlen Hnth]]]].
    { intros x Hx. rewrite Hk. apply Hle; auto. }
    { intros x Hx. rewrite Hlen1. apply Hb; simpl; auto. }
    split; [simpl; lia|]. split.
    { rewrite Hcu, last_major_cons, Hk. reflexivity. }
    split; [lia|]. split; [congruence|].
    intros j. rewrite Hnth. unfold starts1. rewrite for_n_upd_range.
    assert (Hbe : fst e + 1 < length starts) by (apply Hb; simpl; auto).
    rewrite count_lt_cons.
    assert (Hz : j <= fst e -> count_lt es j = 0).
    { intros; apply count_lt_zero; intros x Hx; specialize (Hle x Hx); lia. }
    destruct (Nat.ltb_spec (curr + k) j); destruct (Nat.leb_spec j curr'); destruct (Nat.ltb_spec curr j);
      destruct (Nat.leb_spec j (curr + k)); destruct (Nat.ltb_spec j (length starts));
      destruct (Nat.ltb_spec (fst e) j); cbn [andb]; try lia; try reflexivity; try (rewrite Hz by lia; lia).
Qed.

Lemma last_major_bound es curr n :
  curr < n -> (forall x, In x es -> fst x < n) -> last_major es curr < n.
Proof.
  unfold last_major. intros Hc H. destruct es as [|e es]; simpl; auto.
  assert (In (last (e :: es) (curr, 0)) (e :: es)).
  { generalize (curr, 0). induction es as [|e' es IH] in e |- *; intros d; [simpl; auto|].
    change (last (e :: e' :: es) d) with (last (e' :: es) d). right. apply IH. }
  apply H; auto.
Qed.

Lemma sorted_last_max es curr :
  sorted_fst es -> (forall x, In x es -> curr <= fst x) -> forall x, In x es -> fst x <= last_major es curr.
Proof.
  unfold last_major. induction es as [|e es IH]; intros Hs Hc x Hx; [contradiction|].
  simpl in Hs. destruct Hs as [Hle Hs]. destruct es as [|e' es'].
  - simpl in *. destruct Hx as [<-|[]]; lia.
  - change (last (e :: e' :: es') (curr, 0)) with (last (e' :: es') (curr, 0)).
    destruct Hx as [<-|Hx].
    + specialize (IH Hs (fun y Hy => Hc y (or_intror Hy)) e' (or_introl eq_refl)).
      specialize (Hle e' (or_introl eq_refl)). lia.
    + apply IH; auto. intros; apply Hc; simpl; auto.
Qed.

(* the start table: counts of smaller majors up to (last major + 1), zero beyond *)
Theorem start_vector_spec n ms :
  0 < n -> sorted_fst ms -> (forall x, In x ms -> fst x < n) ->
  let K := last_major ms 0 in
  length (start_vector n ms) = n + 1 /\
  (forall j, j <= K + 1 -> nth j (start_vector n ms) 0 = count_lt ms j) /\
  (forall j, K + 1 < j -> nth j (start_vector n ms) 0 = 0).
Proof.
  intros Hn Hs Hb K. unfold start_vector.
  pose proof (start_loop_spec ms 0 0 (repeat 0 (n + 1)) Hs) as H.
  destruct (start_loop ms 0 0 (repeat 0 (n + 1))) as [[curr total] starts].
  destruct H as [Ht [Hc [_ [Hlen Hnth]]]]; [intros; lia | intros x Hx; rewrite repeat_length; specialize (Hb x Hx); lia |].
  rewrite repeat_length in Hlen. fold K in Hc. subst curr. simpl in Ht. subst total.
  assert (HK : K < n) by (apply last_major_bound; auto).
  assert (Hrep : forall j, nth j (repeat 0 (n + 1)) 0 = 0).
  { intros j. destruct (Nat.lt_ge_cases j (n + 1)); [apply nth_repeat|apply nth_overflow; rewrite repeat_length; lia]. }
  split; [rewrite upd_length; auto|]. split.
  - intros j Hj. rewrite nth_upd, Hlen.
    destruct (Nat.eqb_spec (K + 1) j) as [<-|NE]; simpl.
    + destruct (Nat.ltb_spec (K + 1) (n + 1)); [|lia].
      symmetry. apply count_lt_all. intros x Hx.
      pose proof (sorted_last_max ms 0 Hs (fun _ _ => Nat.le_0_l _) x Hx). fold K in H0. lia.
    + rewrite Hnth, Hrep. destruct (Nat.ltb_spec 0 j); simpl.
      * destruct (Nat.leb_spec j K); [reflexivity|lia].
      * assert (j = 0) by lia. subst. symmetry. apply count_lt_zero. intros; lia.
  - intros j Hj. rewrite nth_upd_neq by lia. rewrite Hnth, Hrep.
    destruct (Nat.ltb_spec 0 j), (Nat.leb_spec j K); simpl; auto; lia.
Qed.

(* ---------------- the lookup ---------------- *)
Lemma filter_major_none l j : (forall x, In x l -> j <> fst x) -> filter (fun x : nat * nat => fst x =? j) l = [].
Proof.
  induction l as [|x t IH]; simpl; auto. intros H.
  destruct (Nat.eqb_spec (fst x) j) as [E|NE].
  - specialize (H x (or_introl eq_refl)). lia.
  - apply IH. intros; apply H; auto.
Qed.

Lemma slice_majors ms j :
  sorted_fst ms ->
  slice (count_lt ms j) (count_lt ms (j + 1)) (map snd ms) = map snd (filter (fun x => fst x =? j) ms).
Proof.
  unfold slice. induction ms as [|x t IH]; intros Hs; [reflexivity|].
  simpl in Hs. destruct Hs as [Hle Hs]. specialize (IH Hs).
  rewrite !count_lt_cons. cbn [map filter].
  destruct (Nat.lt_trichotomy (fst x) j) as [Hlt|[Heq|Hgt]].
  - destruct (Nat.ltb_spec (fst x) j); [|lia]. destruct (Nat.ltb_spec (fst x) (j + 1)); [|lia].
    destruct (Nat.eqb_spec (fst x) j); [lia|]. simpl. exact IH.
  - destruct (Nat.ltb_spec (fst x) j); [lia|]. destruct (Nat.ltb_spec (fst x) (j + 1)); [|lia].
    destruct (Nat.eqb_spec (fst x) j); [|lia].
    assert (Hz : count_lt t j = 0) by (apply count_lt_zero; intros y Hy; specialize (Hle y Hy); lia).
    rewrite Hz in *. simpl. simpl in IH. rewrite Nat.sub_0_r in *. f_equal. exact IH.
  - destruct (Nat.ltb_spec (fst x) j); [lia|]. destruct (Nat.ltb_spec (fst x) (j + 1)); [lia|].
    destruct (Nat.eqb_spec (fst x) j); [lia|].
    rewrite !count_lt_zero by (intros y Hy; specialize (Hle y Hy); lia). simpl.
    symmetry. rewrite filter_major_none; [reflexivity|]. intros y Hy; specialize (Hle y Hy); lia.
Qed.

Lemma position_in_sorted ms maj mnr k :
  sorted_fst ms ->
  index_of mnr (map snd (filter (fun x => fst x =? maj) ms)) = Some k ->
  count_lt ms maj + k < length ms /\ nth (count_lt ms maj + k) ms (0, 0) = (maj, mnr).
Proof.
  revert k; induction ms as [|x t IH]; intros k Hs H; [discriminate|].
  simpl in Hs. destruct Hs as [Hle Hs]. rewrite count_lt_cons. cbn [filter map] in H.
  destruct (Nat.lt_trichotomy (fst x) maj) as [Hlt|[Heq|Hgt]].
  - destruct (Nat.ltb_spec (fst x) maj); [|lia]. destruct (Nat.eqb_spec (fst x) maj); [lia|].
    destruct (IH k Hs H) as [H1 H2]. simpl. split; [lia|exact H2].
  - destruct (Nat.ltb_spec (fst x) maj); [lia|]. destruct (Nat.eqb_spec (fst x) maj); [|lia].
    assert (Hz : count_lt t maj = 0) by (apply count_lt_zero; intros y Hy; specialize (Hle y Hy); lia).
    cbn [map index_of] in H. destruct (Nat.eqb_spec (snd x) mnr) as [E2|NE2].
    + inversion H; subst k. rewrite Hz. simpl. split; [lia|]. destruct x; simpl in *; subst; reflexivity.
    + destruct (index_of mnr (map snd (filter (fun x0 => fst x0 =? maj) t))) as [k'|] eqn:E; [|discriminate].
      inversion H; subst k. destruct (IH k' Hs eq_refl) as [H1 H2]. rewrite Hz in *. simpl in *. split; [lia|exact H2].
  - destruct (Nat.eqb_spec (fst x) maj); [lia|].
    rewrite filter_major_none in H by (intros y Hy; specialize (Hle y Hy); lia). discriminate.
Qed.

Lemma find_in_table n ms maj mnr :
  0 < n -> sorted_fst ms -> (forall x, In x ms -> fst x < n) ->
  match index_of mnr (slice (nth maj (start_vector n ms) 0) (nth (maj + 1) (start_vector n ms) 0) (map snd ms)) with
  | Some k => Some (nth maj (start_vector n ms) 0 + k) | None => None end =
  match index_of mnr (map snd (filter (fun x => fst x =? maj) ms)) with
  | Some k => Some (count_lt ms maj + k) | None => None end.
Proof.
  intros Hn Hs Hb.
  destruct (start_vector_spec n ms Hn Hs Hb) as [_ [Hlo Hhi]].
  set (K := last_major ms 0) in *.
  destruct (Nat.le_gt_cases maj K) as [HmK|HmK].
  - rewrite (Hlo maj) by lia. rewrite (Hlo (maj + 1)) by lia. rewrite slice_majors by assumption. reflexivity.
  - rewrite (Hhi (maj + 1)) by lia.
    assert (Hnone : filter (fun x : nat * nat => fst x =? maj) ms = []).
    { apply filter_major_none. intros x Hx.
      pose proof (sorted_last_max ms 0 Hs (fun _ _ => Nat.le_0_l _) x Hx) as H. fold K in H. lia. }
    rewrite Hnone. unfold slice. simpl. reflexivity.
Qed.

Section Table.
  Variables (csc : bool) (n : nat) (pat : list (nat * nat)).
  Hypothesis Hn : 0 < n.
  Hypothesis Hpat : forall x, In x pat -> fst x < n /\ snd x < n.
  Notation ms := (major_sorted csc pat).
  Notation s := (sp_build csc n pat).
  Definition majmin (r c : nat) : nat * nat := if csc then (c, r) else (r, c).

  Lemma ms_sorted : ssorted ms.
  Proof. unfold major_sorted. destruct csc; apply set_of_spec. Qed.

  Lemma ms_in r c : In (majmin r c) ms <-> In (r, c) pat.
  Proof.
    unfold major_sorted, majmin. destruct csc.
    - pose proof (proj2 (set_of_spec (map swap_pair (set_of pat))) (c, r)) as H1.
      pose proof (proj2 (set_of_spec pat) (r, c)) as H2.
      rewrite H1, <- H2, in_map_iff. split.
      + intros [[a b] [E Hin]]. unfold swap_pair in E; simpl in E. inversion E; subst. exact Hin.
      + intros Hin. exists (r, c). split; [reflexivity|exact Hin].
    - apply (proj2 (set_of_spec pat)).
  Qed.

  Lemma ms_bound x : In x ms -> fst x < n /\ snd x < n.
  Proof.
    intros Hin. destruct x as [a b]. simpl.
    destruct csc eqn:Ecsc.
    - assert (H : In (b, a) pat) by (apply (ms_in b a); unfold majmin; rewrite Ecsc; exact Hin).
      apply Hpat in H; simpl in H; tauto.
    - assert (H : In (a, b) pat) by (apply (ms_in a b); unfold majmin; rewrite Ecsc; exact Hin).
      apply Hpat in H; simpl in H; tauto.
  Qed.

  Lemma sp_find_spec r c :
    r < n -> c < n ->
    sp_find csc s r c =
    match index_of (snd (majmin r c)) (map snd (filter (fun x => fst x =? fst (majmin r c)) ms)) with
    | Some k => Some (count_lt ms (fst (majmin r c)) + k)
    | None => None
    end.
  Proof.
    intros Hr Hc. unfold sp_find, sp_build. cbn [sp_start sp_ids].
    assert (Hs : sorted_fst ms) by (apply ssorted_sorted_fst, ms_sorted).
    pose proof (fun maj mnr => find_in_table n ms maj mnr Hn Hs (fun x Hx => proj1 (ms_bound x Hx))) as Haux.
    unfold majmin. destruct csc; cbn [fst snd]; apply Haux.
  Qed.

  Theorem sp_find_some_iff r c : r < n -> c < n -> ((exists e, sp_find csc s r c = Some e) <-> In (r, c) pat).
  Proof.
    intros Hr Hc. rewrite sp_find_spec by assumption. rewrite <- ms_in.
    set (mm := majmin r c).
    split.
    - intros [e He].
      destruct (index_of (snd mm) (map snd (filter (fun x => fst x =? fst mm) ms))) as [k|] eqn:E; [|discriminate].
      apply index_of_some in E. destruct E as [Hk Hnth].
      assert (Hin : In (snd mm) (map snd (filter (fun x => fst x =? fst mm) ms))) by (rewrite <- Hnth; apply nth_In; auto).
      rewrite in_map_iff in Hin. destruct Hin as [[a b] [Eb Hf]]. rewrite filter_In in Hf.
      destruct Hf as [Hin Ea]. simpl in *. apply Nat.eqb_eq in Ea. subst. destruct mm; simpl in *. exact Hin.
    - intros Hin.
      assert (Hin2 : In (snd mm) (map snd (filter (fun x => fst x =? fst mm) ms))).
      { apply in_map_iff. exists mm. split; [reflexivity|]. apply filter_In. split; [exact Hin|apply Nat.eqb_refl]. }
      destruct (index_of_in _ _ Hin2) as [k ->]. eauto.
  Qed.

  Theorem sp_find_position r c e :
    r < n -> c < n -> sp_find csc s r c = Some e -> e < sp_nnz s /\ nth e ms (0, 0) = majmin r c.
  Proof.
    intros Hr Hc. rewrite sp_find_spec by assumption.
    destruct (index_of (snd (majmin r c)) (map snd (filter (fun x => fst x =? fst (majmin r c)) ms))) as [k|] eqn:E; [|discriminate].
    intros H; inversion H; subst e.
    destruct (position_in_sorted ms _ _ k (ssorted_sorted_fst _ ms_sorted) E) as [H1 H2].
    split.
    - unfold sp_nnz, sp_build. cbn [sp_ids]. rewrite map_length. exact H1.
    - rewrite H2. destruct (majmin r c); reflexivity.
  Qed.

  Theorem sp_find_inj r c r' c' e :
    r < n -> c < n -> r' < n -> c' < n ->
    sp_find csc s r c = Some e -> sp_find csc s r' c' = Some e -> r = r' /\ c = c'.
  Proof.
    intros Hr Hc Hr' Hc' H1 H2.
    destruct (sp_find_position r c e Hr Hc H1) as [_ E1].
    destruct (sp_find_position r' c' e Hr' Hc' H2) as [_ E2].
    rewrite E1 in E2. unfold majmin in E2. destruct csc; inversion E2; auto.
  Qed.
End Table.

(* ---------------- VectorIndex: the sparse matrix is a dense (blocks x nnz) matrix in the
   matching layout, composed with the element position ---------------- *)
Definition ord_layout (o : ordering) : layout := match o_L o with None => RowMajor | Some L => Grouped L end.
Definition ord_ok (o : ordering) : Prop := match o_L o with None => True | Some L => 0 < L end.

Lemma sp_size_dense o s nb : sp_size o s nb = lay_size (ord_layout o) nb (sp_nnz s).
Proof. unfold sp_size, ord_layout. destruct (o_L o); reflexivity. Qed.

Lemma sp_index_dense o s nb b r c k :
  sp_index o s nb b r c = Ok k <->
  (r < sp_n s /\ c < sp_n s /\ b < nb /\
   exists e, sp_find (o_csc o) s r c = Some e /\ k = lay_addr (ord_layout o) (sp_nnz s) b e).
Proof.
  unfold sp_index, ord_layout.
  destruct (Nat.leb_spec (sp_n s) r) as [Hr|Hr]; cbn [orb].
  { split; [discriminate|]. intros [? _]; lia. }
  destruct (Nat.leb_spec (sp_n s) c) as [Hc|Hc]; cbn [orb].
  { split; [discriminate|]. intros [_ [? _]]; lia. }
  destruct (Nat.leb_spec nb b) as [Hb|Hb]; cbn [orb].
  { split; [discriminate|]. intros [_ [_ [? _]]]; lia. }
  destruct (sp_find (o_csc o) s r c) as [e|].
  - destruct (o_L o) as [L|]; simpl.
    + split.
      * intros H; inversion H; subst. repeat split; auto. exists e. split; auto. unfold vm_addr. ring.
      * intros [_ [_ [_ [e' [E ->]]]]]. inversion E; subst. f_equal. unfold vm_addr. ring.
    + split.
      * intros H; inversion H; subst. repeat split; auto. exists e. split; auto. unfold rm_addr. ring.
      * intros [_ [_ [_ [e' [E ->]]]]]. inversion E; subst. f_equal. unfold rm_addr. ring.
  - split; [discriminate|]. intros [_ [_ [_ [e [E _]]]]]. discriminate.
Qed.

Section Index.
  Variables (o : ordering) (n : nat) (pat : list (nat * nat)) (nb : nat).
  Hypothesis Ho : ord_ok o.
  Hypothesis Hn : 0 < n.
  Hypothesis Hpat : forall x, In x pat -> fst x < n /\ snd x < n.
  Notation s := (sp_build (o_csc o) n pat).

  Lemma layout_ok_ord : match ord_layout o with Grouped L => 0 < L | RowMajor => True end.
  Proof. unfold ord_layout, ord_ok in *. destruct (o_L o); auto. Qed.

  (* every element of the pattern, in every block, has a slot *)
  Theorem sp_index_defined b r c :
    b < nb -> In (r, c) pat -> exists k, sp_index o s nb b r c = Ok k.
  Proof.
    intros Hb Hin. destruct (Hpat _ Hin) as [Hr Hc]. simpl in Hr, Hc.
    destruct (proj2 (sp_find_some_iff (o_csc o) n pat Hn Hpat r c Hr Hc) Hin) as [e He].
    exists (lay_addr (ord_layout o) (sp_nnz s) b e). apply sp_index_dense.
    repeat split; auto. exists e; auto.
  Qed.

  (* in range *)
  Theorem sp_index_range b r c k : sp_index o s nb b r c = Ok k -> k < sp_size o s nb.
  Proof.
    intros H. apply sp_index_dense in H. destruct H as [Hr [Hc [Hb [e [He ->]]]]]. cbn [sp_n sp_build] in Hr, Hc.
    rewrite sp_size_dense. apply lay_addr_range; [apply layout_ok_ord | exact Hb |].
    apply (sp_find_position (o_csc o) n pat Hn Hpat r c e Hr Hc He).
  Qed.

  (* distinct (block, row, column) never share a slot *)
  Theorem sp_index_inj b r c b' r' c' k :
    sp_index o s nb b r c = Ok k -> sp_index o s nb b' r' c' = Ok k -> b = b' /\ r = r' /\ c = c'.
  Proof.
    intros H H'. apply sp_index_dense in H, H'.
    destruct H as [Hr [Hc [Hb [e [He ->]]]]]. destruct H' as [Hr' [Hc' [Hb' [e' [He' E]]]]].
    cbn [sp_n sp_build] in Hr, Hc, Hr', Hc'.
    apply lay_addr_inj in E; [| apply layout_ok_ord
      | apply (sp_find_position (o_csc o) n pat Hn Hpat r c e Hr Hc He)
      | apply (sp_find_position (o_csc o) n pat Hn Hpat r' c' e' Hr' Hc' He')].
    destruct E as [-> ->]. split; [reflexivity|].
    eapply sp_find_inj; eauto.
  Qed.

  (* structural zeros: reported as zero, access refused; out-of-range refused *)
  Theorem sp_is_zero_spec r c :
    (n <= r \/ n <= c -> sp_is_zero (o_csc o) s r c = Err E_ElementOutOfRange) /\
    (r < n -> c < n -> In (r, c) pat -> sp_is_zero (o_csc o) s r c = Ok false) /\
    (r < n -> c < n -> ~ In (r, c) pat -> sp_is_zero (o_csc o) s r c = Ok true).
  Proof.
    unfold sp_is_zero. cbn [sp_n sp_build]. split; [|split].
    - intros H. destruct (Nat.leb_spec n r), (Nat.leb_spec n c); cbn [orb]; auto; lia.
    - intros Hr Hc Hin. destruct (Nat.leb_spec n r), (Nat.leb_spec n c); cbn [orb]; try lia.
      destruct (proj2 (sp_find_some_iff (o_csc o) n pat Hn Hpat r c Hr Hc) Hin) as [e ->]. reflexivity.
    - intros Hr Hc Hnin. destruct (Nat.leb_spec n r), (Nat.leb_spec n c); cbn [orb]; try lia.
      destruct (sp_find (o_csc o) s r c) as [e|] eqn:E; auto. exfalso.
      apply Hnin. apply (sp_find_some_iff (o_csc o) n pat Hn Hpat r c Hr Hc). eauto.
  Qed.

  Theorem sp_index_refused b r c :
    (n <= r \/ n <= c \/ nb <= b -> sp_index o s nb b r c = Err E_ElementOutOfRange) /\
    (r < n -> c < n -> b < nb -> ~ In (r, c) pat -> sp_index o s nb b r c = Err E_ZeroElementAccess).
  Proof.
    unfold sp_index. cbn [sp_n sp_build]. split.
    - intros H. destruct (Nat.leb_spec n r), (Nat.leb_spec n c), (Nat.leb_spec nb b); cbn [orb]; auto; lia.
    - intros Hr Hc Hb Hnin.
      destruct (Nat.leb_spec n r), (Nat.leb_spec n c), (Nat.leb_spec nb b); cbn [orb]; try lia.
      destruct (sp_find (o_csc o) s r c) as [e|] eqn:E; auto. exfalso.
      apply Hnin. apply (sp_find_some_iff (o_csc o) n pat Hn Hpat r c Hr Hc). eauto.
  Qed.
End Index.
