(* Properties_C06.v — C06: Solve returns a truthful, usable outcome.
   Proved: the counters equal the numbers of operations performed (both integrators, any policies,
   any history).  Refuted on the faithful model (and recorded as known findings): "Converged only
   if the whole interval was integrated" fails for time steps not above round_off.
   Proved: the status returned is the one whose condition occurred (Rosenbrock: all five statuses; backward Euler:
   Converged only once t < time_step has failed).
   Proved in exact arithmetic (every scalar structure that embeds into the ordered rationals): 0 <= final_time <= time_step.
   Not a theorem (validated by the tie and the oracle): the same up to rounding in binary64, termination. *)
From Coq Require Import QArith.
From Model Require Import Base Rosenbrock BackwardEulerM IntegratorProofs RosScratchProofs NumInst RosTimeQ.
From Coq Require Import Qabs.
Local Open Scope nat_scope.

Theorem C06_rosenbrock_counters_equal_operations :
  forall (N : Num) ltb leb nabs isnan isinf is_zero absorbed pow_inv ten delta_min
         (V M F : Type) vaxpy vzero mzero add_diag forcing negjac in_place factor_sep solve_sep factor_ip solve_ip nerr
         (p : params N) fuel time_step s,
    let r := ros_solve N ltb leb nabs isnan isinf is_zero absorbed pow_inv ten delta_min V M F vaxpy vzero mzero
                       add_diag forcing negjac in_place factor_sep solve_sep factor_ip solve_ip nerr p fuel time_step s in
    counters_ok N V M (r_stats r) (r_trace r).
Proof. exact ros_counters_exact. Qed.
Print Assumptions C06_rosenbrock_counters_equal_operations.

(* final_time_ is exactly the sum (in the order taken, with the solver's own addition) of the step sizes of the accepted
   attempts, for every history, every policy set and every way the Solve ends: the time reported is the time integrated *)
Theorem C06_rosenbrock_final_time_is_sum_of_accepted_steps :
  forall (N : Num) ltb leb nabs isnan isinf is_zero absorbed pow_inv ten delta_min
         (V M F : Type) vaxpy vzero mzero add_diag forcing negjac in_place factor_sep solve_sep factor_ip solve_ip nerr
         (p : params N) fuel time_step (s : rstate V M F),
    let r := ros_solve N ltb leb nabs isnan isinf is_zero absorbed pow_inv ten delta_min V M F vaxpy vzero mzero
                       add_diag forcing negjac in_place factor_sep solve_sep factor_ip solve_ip nerr p fuel time_step s in
    r_final_time r = time_from N V M (n0 N) (r_trace r).
Proof. exact ros_final_time_is_sum_of_accepted_steps. Qed.
Print Assumptions C06_rosenbrock_final_time_is_sum_of_accepted_steps.

(* ---- the clause "Converged only if the whole interval was integrated" ---- *)
Local Open Scope Q_scope.
Definition qltb (a b : Q) : bool := match Qcompare a b with Lt => true | _ => false end.
Definition qleb (a b : Q) : bool := match Qcompare a b with Gt => false | _ => true end.
Definition qabs (a : Q) : Q := if qltb a 0 then Qred (- a) else a.

(* a concrete instance: trivial policies on a state with no content, default controls *)
Definition triv_params : params NumQ :=
  mkParams NumQ 1%nat [] [] [1] [1] (1#2) [true] 1 1000%nat (1 # 4503599627370496) (1#5) 6 (1#10) (9#10) 0 0 (1#8).

Definition triv_solve (time_step : Q) :=
  ros_solve NumQ qltb qleb qabs (fun _ => false) (fun _ => false) (fun x => Qeq_bool x 0) (fun _ _ => false)
            (fun e _ => e) 10 (1 # 1000000) unit unit unit (fun _ _ y => y) (fun y => y) (fun m => m) (fun _ m => m)
            (fun _ f => f) (fun _ j => j) false (fun _ l => l) (fun _ k => k) (fun m => m) (fun _ k => k)
            (fun _ _ _ _ => 1#4) triv_params 50%nat time_step (mkRState unit unit unit tt tt tt tt tt [tt] tt).

(* the full clause, as a statement about one Solve *)
Definition converged_means_interval_covered (time_step : Q) : Prop :=
  r_state (triv_solve time_step) = Converged -> r_final_time (triv_solve time_step) == time_step.

(* it holds for an ordinary time step ... *)
Example C06_interval_covered_for_ordinary_time_step : converged_means_interval_covered 1.
Proof. unfold converged_means_interval_covered. vm_compute. intros _. reflexivity. Qed.

(* ... and is refuted for a positive time step not above round_off: Converged, final time 0, no step taken.
   Replayed on the implementation by the corpus case of C06 (known finding). *)
Theorem C06_converged_without_progress_refuted :
  exists time_step : Q,
    0 < time_step /\ ~ converged_means_interval_covered time_step /\
    number_of_steps (r_stats (triv_solve time_step)) = 0%nat.
Proof.
  exists (1 # 1152921504606846976). split; [reflexivity|]. split.
  - unfold converged_means_interval_covered. intros H.
    assert (E : r_state (triv_solve (1 # 1152921504606846976)) = Converged) by (vm_compute; reflexivity).
    specialize (H E). vm_compute in H. discriminate.
  - vm_compute. reflexivity.
Qed.
Print Assumptions C06_converged_without_progress_refuted.

(* the status is truthful: whatever the policies, the history and the way the loops are left,
     Converged                    - the loop guard failed: not (t - time_step + round_off <= 0) for the final time t
                                    (the known findings of C06 are the cases where this guard is passed without a step)
     ConvergenceExceededMaxSteps  - the step count had passed max_number_of_steps_
     StepSizeTooSmall             - the current H was absorbed by t or not above round_off
     NaNDetected / InfDetected    - an attempt of this run had a NaN / infinite error norm (and was not accepted)
   and no other status is ever returned (Running, NotYetCalled, AcceptingUnconvergedIntegration: False). *)
Theorem C06_rosenbrock_status_is_truthful :
  forall (N : Num) ltb leb nabs isnan isinf is_zero absorbed pow_inv ten delta_min
         (V M F : Type) vaxpy vzero mzero add_diag forcing negjac in_place factor_sep solve_sep factor_ip solve_ip nerr
         (p : params N) fuel time_step (s : rstate V M F),
    let r := ros_solve N ltb leb nabs isnan isinf is_zero absorbed pow_inv ten delta_min V M F vaxpy vzero mzero
                       add_diag forcing negjac in_place factor_sep solve_sep factor_ip solve_ip nerr p fuel time_step s in
    match r_state r with
    | Converged => leb (nadd N (nsub N (r_final_time r) time_step) (p_round_off p)) (n0 N) = false
    | ConvergenceExceededMaxSteps => (p_max_steps p < number_of_steps (r_stats r))%nat
    | StepSizeTooSmall => exists H, absorbed (r_final_time r) H || leb H (p_round_off p) = true
    | NaNDetected => exists H e y yn ye, In (EvAttempt H e false y yn ye) (r_trace r) /\ isnan e = true
    | InfDetected => exists H e y yn ye, In (EvAttempt H e false y yn ye) (r_trace r) /\ isinf e = true
    | OutOfFuel => True
    | _ => False
    end.
Proof. exact ros_status_truthful. Qed.
Print Assumptions C06_rosenbrock_status_is_truthful.

Theorem C06_backward_euler_converged_means_interval_covered :
  forall (N : Num) ltb is_zero (V M F : Type) vzero mzero add_diag forcing negjac in_place factor_sep solve_sep
         factor_ip solve_ip vresid vclamp_add is_converged two (p : be_params N) fuel time_step (s : bstate V M F),
    let r := be_solve N ltb is_zero V M F vzero mzero add_diag forcing negjac in_place factor_sep solve_sep factor_ip
                      solve_ip vresid vclamp_add is_converged two p fuel time_step s in
    br_state r = Converged -> ltb (br_final_time r) time_step = false.
Proof. exact be_converged_means_interval_covered. Qed.
Print Assumptions C06_backward_euler_converged_means_interval_covered.

(* 0 <= final_time_ <= time_step for the Rosenbrock integrator, every policy set, history and exit, in every scalar
   structure that embeds into the ordered field of the rationals (phi a homomorphism for + - *, reflecting < and <=,
   commuting with abs): the rationals themselves (next theorem) and binary64 on every run in which no operation rounds.
   Premises: round_off, factor_min, factor_max, rejection_factor_decrease not negative; factor_min and
   rejection_factor_decrease at most 1; an error norm that is not below 1 gives a raw factor safety / err^(1/order) of
   at most 1 (the power function is an oracle of the model). *)
Theorem C06_rosenbrock_final_time_within_the_interval :
  forall (N : Num) ltb leb nabs isnan isinf is_zero absorbed pow_inv ten delta_min
         (V M F : Type) vaxpy vzero mzero add_diag forcing negjac in_place factor_sep solve_sep factor_ip solve_ip nerr
         (p : params N) (phi : T N -> Q),
    (forall a b, phi (nadd N a b) == phi a + phi b)%Q ->
    (forall a b, phi (nsub N a b) == phi a - phi b)%Q ->
    (forall a b, phi (nmul N a b) == phi a * phi b)%Q ->
    (forall a b, ltb a b = true <-> (phi a < phi b)%Q) ->
    (forall a b, leb a b = true <-> (phi a <= phi b)%Q) ->
    (forall a, phi (nabs a) == Qabs (phi a))%Q ->
    (0 <= phi (p_round_off p))%Q ->
    (0 <= phi (p_factor_min p) /\ phi (p_factor_min p) <= 1)%Q ->
    (0 <= phi (p_factor_max p))%Q ->
    (0 <= phi (p_rej_dec p) /\ phi (p_rej_dec p) <= 1)%Q ->
    (forall err, ltb err (n1 N) = false -> (phi (ndiv N (p_safety p) (pow_inv err (p_elo p))) <= 1)%Q) ->
    forall fuel time_step (s : rstate V M F),
      (phi (n0 N) == 0)%Q -> (0 <= phi time_step)%Q ->
      let r := ros_solve N ltb leb nabs isnan isinf is_zero absorbed pow_inv ten delta_min V M F vaxpy vzero mzero
                         add_diag forcing negjac in_place factor_sep solve_sep factor_ip solve_ip nerr p fuel time_step s in
      (0 <= phi (r_final_time r) /\ phi (r_final_time r) <= phi time_step)%Q.
Proof. exact ros_final_time_within_the_interval. Qed.
Print Assumptions C06_rosenbrock_final_time_within_the_interval.

(* ... instantiated at the exact rationals the correspondence check computes with; the premises are met, e.g., by
   safety 9/10 with an order-1 power oracle (RosTimeQ.time_bound_premises_are_satisfiable) *)
Theorem C06_rosenbrock_final_time_within_the_interval_over_Q :
  forall isnan isinf is_zero absorbed (pow_inv : Q -> Q -> Q) ten delta_min
         (V M F : Type) vaxpy vzero mzero add_diag forcing negjac in_place factor_sep solve_sep factor_ip solve_ip nerr
         (p : params NumQ),
    (0 <= p_round_off p)%Q -> (0 <= p_factor_min p <= 1)%Q -> (0 <= p_factor_max p)%Q -> (0 <= p_rej_dec p <= 1)%Q ->
    (forall err, qlt err 1 = false -> (Qred (p_safety p / pow_inv err (p_elo p)) <= 1)%Q) ->
    forall fuel (time_step : Q) (s : rstate V M F), (0 <= time_step)%Q ->
      let r := ros_solve NumQ qlt qle Qabs isnan isinf is_zero absorbed pow_inv ten delta_min V M F vaxpy vzero mzero
                         add_diag forcing negjac in_place factor_sep solve_sep factor_ip solve_ip nerr p fuel time_step s in
      (0 <= r_final_time r <= time_step)%Q.
Proof. exact ros_final_time_within_the_interval_Q. Qed.
Print Assumptions C06_rosenbrock_final_time_within_the_interval_over_Q.

(* ... and for backward Euler (the initial clamp of h_start to the interval is the repair bba10e6): premises h_start,
   the reduction factors and the doubling factor not negative *)
Theorem C06_backward_euler_final_time_within_the_interval :
  forall (N : Num) ltb is_zero (V M F : Type) vzero mzero add_diag forcing negjac in_place factor_sep solve_sep
         factor_ip solve_ip vresid vclamp_add is_converged two (p : be_params N) (phi : T N -> Q),
    (forall a b, phi (nadd N a b) == phi a + phi b)%Q ->
    (forall a b, phi (nsub N a b) == phi a - phi b)%Q ->
    (forall a b, phi (nmul N a b) == phi a * phi b)%Q ->
    (forall a b, ltb a b = true <-> (phi a < phi b)%Q) ->
    (phi (n0 N) == 0)%Q ->
    (0 <= phi (bp_h_start p))%Q ->
    (forall r, In r (bp_reductions p) -> (0 <= phi r)%Q) ->
    (0 <= phi two)%Q ->
    forall fuel time_step (s : bstate V M F),
      (0 <= phi time_step)%Q ->
      let r := be_solve N ltb is_zero V M F vzero mzero add_diag forcing negjac in_place factor_sep solve_sep factor_ip
                        solve_ip vresid vclamp_add is_converged two p fuel time_step s in
      (0 <= phi (br_final_time r) /\ phi (br_final_time r) <= phi time_step)%Q.
Proof. exact be_final_time_within_the_interval. Qed.
Print Assumptions C06_backward_euler_final_time_within_the_interval.
