(* Dense.v — model of micm::Matrix<T> (row-major) and micm::VectorMatrix<T,L>
   (rows grouped by L).  util/matrix.hpp, util/vector_matrix.hpp.
   A matrix is its storage vector (list) plus its shape; every whole-matrix
   operation is modelled by the list of storage indices its loops visit, in
   the order the code visits them. *)
From Model Require Export Base.
Local Open Scope nat_scope.

(* ---------------- shapes and addresses ---------------- *)
Inductive layout := RowMajor | Grouped (L : nat).

Definition ceil_div (a b : nat) : nat := (a + b - 1) / b.

(* Matrix: data_(x_dim * y_dim) ; element data_[x*y_dim + y] *)
Definition rm_size (nrow ncol : nat) : nat := nrow * ncol.
Definition rm_addr (ncol r c : nat) : nat := r * ncol + c.

(* VectorMatrix: data_(ceil(x/L)*L*y) ; element data_[(g*y_dim + y)*L + lane] *)
Definition vm_groups (L nrow : nat) : nat := ceil_div nrow L.
Definition vm_size (L nrow ncol : nat) : nat := vm_groups L nrow * L * ncol.
Definition vm_addr (L ncol r c : nat) : nat := ((r / L) * ncol + c) * L + r mod L.

Definition lay_size (ly : layout) nrow ncol :=
  match ly with RowMajor => rm_size nrow ncol | Grouped L => vm_size L nrow ncol end.
Definition lay_addr (ly : layout) ncol r c :=
  match ly with RowMajor => rm_addr ncol r c | Grouped L => vm_addr L ncol r c end.

(* ---------------- visiting orders of the whole-matrix loops ---------------- *)
(* Matrix::Axpy / ForEach / Max / Min iterate over all of data_. *)
Definition rm_all (nrow ncol : nat) : list nat := seq 0 (rm_size nrow ncol).

(* VectorMatrix::Axpy / ForEach:
     n = floor(x_dim/L)*L*y_dim ; for i<n: elem i ;
     l = x_dim % L ; for y<y_dim, x<l : elem n + y*L + x                      *)
Definition vm_real (L nrow ncol : nat) : list nat :=
  let n := (nrow / L) * L * ncol in
  seq 0 n ++
  flat_map (fun y => map (fun x => n + y * L + x) (seq 0 (nrow mod L))) (seq 0 ncol).

(* VectorMatrix::Max / Min / Fill iterate over all of data_ (padding included). *)
Definition vm_all (L nrow ncol : nat) : list nat := seq 0 (vm_size L nrow ncol).

Definition lay_real ly nrow ncol :=
  match ly with RowMajor => rm_all nrow ncol | Grouped L => vm_real L nrow ncol end.
Definition lay_all ly nrow ncol := seq 0 (lay_size ly nrow ncol).

Section Ops.
  Variable A : Type.
  Variable d : A.

  (* y[k] := g k y[k]  for each visited k, in order *)
  Definition apply_at (idxs : list nat) (g : nat -> A -> A) (y : list A) : list A :=
    fold_left (fun y k => upd k (g k (nth k y d)) y) idxs y.

  (* Axpy: y += alpha * x on the visited slots *)
  Definition axpy (add mul : A -> A -> A) (idxs : list nat) (alpha : A) (x y : list A) :=
    apply_at idxs (fun k yk => add yk (mul alpha (nth k x d))) y.

  (* ForEach(f, a): f(this, a) *)
  Definition foreach2 (f : A -> A -> A) (idxs : list nat) (a y : list A) :=
    apply_at idxs (fun k yk => f yk (nth k a d)) y.
  Definition foreach3 (f : A -> A -> A -> A) (idxs : list nat) (a b y : list A) :=
    apply_at idxs (fun k yk => f yk (nth k a d) (nth k b d)) y.

  (* Max/Min/Fill/operator=(T): every storage slot *)
  Definition map_all (f : A -> A) (y : list A) : list A := map f y.

  (* Copy: data_.assign(other) ; Swap: data_.swap(other) (sizes must agree) *)
  Definition copy_from (other y : list A) : option (list A) :=
    if Nat.eqb (length other) (length y) then Some other else None.
  Definition swap_with (other y : list A) : option (list A * list A) :=
    if Nat.eqb (length other) (length y) then Some (other, y) else None.

  (* Proxy::operator=(std::vector) : row assignment.
     rm: elements offset..offset+y_dim ; error if other.size() < y_dim.
     vm: iter = g*y_dim*L + lane ; iter += min(L, remaining) per element.     *)
  Definition row_slots (ly : layout) (ncol r : nat) : list nat :=
    map (fun c => lay_addr ly ncol r c) (seq 0 ncol).

  Fixpoint assign_slots (slots : list nat) (vals : list A) (y : list A) : list A :=
    match slots, vals with
    | s :: ss, v :: vs => assign_slots ss vs (upd s v y)
    | _, _ => y
    end.

  Definition row_assign (ly : layout) (ncol r : nat) (vals : list A) (y : list A)
    : option (list A) :=
    if Nat.ltb (length vals) ncol then None (* RowSizeMismatch *)
    else Some (assign_slots (row_slots ly ncol r) vals y).

  Definition row_extract (ly : layout) (ncol r : nat) (y : list A) : list A :=
    map (fun s => nth s y d) (row_slots ly ncol r).

  (* constructor from vector<vector<T>> : None = InvalidVector (ragged) *)
  Definition from_rows (ly : layout) (rows : list (list A)) : option (nat * nat * list A) :=
    match rows with
    | [] => Some (0, 0, [])
    | r0 :: _ =>
      let nrow := length rows in
      let ncol := length r0 in
      if forallb (fun r => Nat.eqb (length r) ncol) rows then
        Some (nrow, ncol,
              snd (fold_left (fun '(i, y) row => (S i, assign_slots (row_slots ly ncol i) row y))
                     rows (0, repeat d (lay_size ly nrow ncol))))
      else None
    end.

  (* logical read *)
  Definition mget (ly : layout) (ncol : nat) (y : list A) (r c : nat) : A :=
    nth (lay_addr ly ncol r c) y d.
End Ops.

Arguments apply_at {A}.
Arguments axpy {A}.
Arguments foreach2 {A}.
Arguments foreach3 {A}.
Arguments row_assign {A}.
Arguments row_extract {A}.
Arguments assign_slots {A}.
Arguments from_rows {A}.
Arguments mget {A}.
Arguments copy_from {A}.
Arguments swap_with {A}.
