(* Properties_C05.v — C05: every attempted integrator step is a genuine step of the declared method.
   Property theorems only; proofs in IntegratorProofs.v.  The integrator model takes the
   RatesPolicy / LinearSolverPolicy operations as parameters, exactly as the C++ templates do;
   the theorems hold for every choice of them and every accept / reject history. *)
From Model Require Import Base Rosenbrock BackwardEulerM IntegratorProofs RosScratchProofs.
From Coq Require Import Ring.
Local Open Scope nat_scope.

(* Rosenbrock: in every run that ends (status other than OutOfFuel), at every attempt — first
   attempts and retries after any number of rejections — for both linear-solver variants
   (separate L/U storage with incremental re-basing of the diagonal, in-place with regeneration
   of the Jacobian) the matrix handed to Factor is
          add_diag (1 / (gamma * H)) (negjac y Z)       i.e.   I/(gamma H) - df/dy(y)
   where H is the step size of that attempt and y the state at which the Jacobian was last
   evaluated.  Premises on the operations: ring laws for the scalars; Fill(0) gives the zero
   matrix Z whatever the previous contents; adding to the diagonal is additive. *)
Theorem C05_rosenbrock_matrix_every_attempt :
  forall (N : Num) ltb leb nabs isnan isinf is_zero absorbed pow_inv ten delta_min
         (V M F : Type) vaxpy vzero mzero add_diag forcing negjac in_place factor_sep solve_sep factor_ip solve_ip nerr
         (p : params N),
    ring_theory (n0 N) (n1 N) (nadd N) (nmul N) (nsub N) (nopp N) eq ->
    forall Z : M,
    (forall m, mzero m = Z) ->
    (forall a b m, add_diag a (add_diag b m) = add_diag (nadd N b a) m) ->
    forall fuel time_step s,
      r_state (ros_solve N ltb leb nabs isnan isinf is_zero absorbed pow_inv ten delta_min V M F vaxpy vzero mzero
                         add_diag forcing negjac in_place factor_sep solve_sep factor_ip solve_ip nerr p fuel time_step s)
        <> OutOfFuel ->
      trace_ok N V M add_diag negjac p Z None
        (r_trace (ros_solve N ltb leb nabs isnan isinf is_zero absorbed pow_inv ten delta_min V M F vaxpy vzero mzero
                            add_diag forcing negjac in_place factor_sep solve_sep factor_ip solve_ip nerr p fuel time_step s)).
Proof. exact ros_matrix_every_attempt. Qed.
Print Assumptions C05_rosenbrock_matrix_every_attempt.

(* Backward Euler: every iteration is a Newton iteration on y - y_n - H f(y) = 0 — matrix
   add_diag (1/H) (negjac y (Fill 0)), right-hand side f(y) - (y - y_n)/H — and each of the five
   operation counters grows by exactly one per iteration; accepted / rejected count the step outcomes *)
Theorem C05_backward_euler_iterations_are_newton :
  forall (N : Num) ltb is_zero (V M F : Type) vzero mzero add_diag forcing negjac in_place factor_sep solve_sep
         factor_ip solve_ip vresid vclamp_add is_converged two (p : be_params N) fuel time_step s,
    let r := be_solve N ltb is_zero V M F vzero mzero add_diag forcing negjac in_place factor_sep solve_sep factor_ip
                      solve_ip vresid vclamp_add is_converged two p fuel time_step s in
    be_ok N V M vzero mzero add_diag forcing negjac vresid (br_stats r) (br_trace r).
Proof. exact be_counters_and_newton. Qed.
Print Assumptions C05_backward_euler_iterations_are_newton.

(* Rosenbrock: the stage loop computes the stages of the declared method.  The code keeps function values in the slots
   of the stage vectors it has not computed yet (slot 0 receives the initial forcing; a stage that evaluates no new
   function finds the value handed on by its predecessor in its own slot) and overwrites each slot with the solution of
   its stage.  RosScratchProofs.spec_stages is the method written without that sharing, stage by stage:
       F_0 = f(Y);   F_i = f(Y + sum_{j<i} a_ij K_j) if new_function_evaluation_[i], F_(i-1) otherwise;
       K_i = Solve(F_i + sum_{j<i} (c_ij / H) K_j)
   (the same vaxpy folds over the packed a_ / c_ tables, reading a clean list of the K_j).  For every coefficient
   table, every stage count and flag vector, both linear-solver variants and whatever the slots held before: after the
   loop, slot i holds K_i.  Premise on the operations: Fill(0) of the forcing buffer forgets its contents. *)
Theorem C05_rosenbrock_stages_are_the_declared_method :
  forall (N : Num) (V M F : Type) (vaxpy : T N -> V -> V -> V) (vzero : V -> V) (forcing : V -> V -> V)
         (in_place : bool) (solve_sep : F -> V -> V) (solve_ip : M -> V -> V) (p : params N),
    (forall v v' : V, vzero v = vzero v') ->
    forall (H : T N) (lm : M) (lf : F) (Y F0 : V) (s : rstate V M F),
      p_stages p <= length (sK s) -> sY s = Y -> sInitF s = F0 -> sJac s = lm -> sLU s = lf ->
      forall i, i < p_stages p ->
        nth i (sK (fst (fst (stages_loop N V M F vaxpy vzero forcing in_place solve_sep solve_ip p H s)))) Y =
        nth i (fst (spec_stages N V M F vaxpy vzero forcing in_place solve_sep solve_ip p H lm lf Y F0 (p_stages p))) Y.
Proof. exact stages_compute_the_declared_method. Qed.
Print Assumptions C05_rosenbrock_stages_are_the_declared_method.
