(* DenseProofs.v — address arithmetic of the dense layouts and specifications of the
   whole-matrix operations on logical elements. *)
From Model Require Import Base Dense.
Local Open Scope nat_scope.

(* ---------- row-major ---------- *)
Lemma rm_addr_range nrow ncol r c : r < nrow -> c < ncol -> rm_addr ncol r c < rm_size nrow ncol.
Proof. unfold rm_addr, rm_size; nia. Qed.

Lemma rm_addr_inj ncol r c r' c' :
  c < ncol -> c' < ncol -> rm_addr ncol r c = rm_addr ncol r' c' -> r = r' /\ c = c'.
Proof. unfold rm_addr; intros Hc Hc' H. assert (r = r') by nia. subst; split; [reflexivity|lia]. Qed.

(* ---------- grouped ---------- *)
Lemma ceil_div_gt L r nrow : 0 < L -> r < nrow -> r / L < ceil_div nrow L.
Proof.
  intros HL Hr. unfold ceil_div.
  assert (H1 : r / L + 1 <= (nrow + L - 1) / L).
  { replace (r / L + 1) with ((r + 1 * L) / L) by (rewrite Nat.div_add by lia; reflexivity).
    apply Nat.div_le_mono; lia. }
  lia.
Qed.

Lemma vm_addr_range L nrow ncol r c :
  0 < L -> r < nrow -> c < ncol -> vm_addr L ncol r c < vm_size L nrow ncol.
Proof.
  intros HL Hr Hc. unfold vm_addr, vm_size, vm_groups.
  pose proof (ceil_div_gt L r nrow HL Hr) as Hg.
  pose proof (Nat.mod_upper_bound r L ltac:(lia)) as Hl.
  set (g := r / L) in *. set (G := ceil_div nrow L) in *. set (l := r mod L) in *.
  assert (g * ncol + c + 1 <= G * ncol) by nia.
  nia.
Qed.

Lemma vm_addr_inj L ncol r c r' c' :
  0 < L -> c < ncol -> c' < ncol ->
  vm_addr L ncol r c = vm_addr L ncol r' c' -> r = r' /\ c = c'.
Proof.
  intros HL Hc Hc' H. unfold vm_addr in H.
  pose proof (Nat.mod_upper_bound r L ltac:(lia)) as Hl.
  pose proof (Nat.mod_upper_bound r' L ltac:(lia)) as Hl'.
  pose proof (Nat.div_mod r L ltac:(lia)) as Er.
  pose proof (Nat.div_mod r' L ltac:(lia)) as Er'.
  set (g := r / L) in *. set (g' := r' / L) in *. set (l := r mod L) in *. set (l' := r' mod L) in *.
  assert (Hq : g * ncol + c = g' * ncol + c' /\ l = l').
  { assert (g * ncol + c = g' * ncol + c') by nia. split; [assumption|nia]. }
  destruct Hq as [Hq Hll].
  assert (g = g') by nia.
  split; [nia|nia].
Qed.

Lemma lay_addr_range ly nrow ncol r c :
  (match ly with Grouped L => 0 < L | RowMajor => True end) ->
  r < nrow -> c < ncol -> lay_addr ly ncol r c < lay_size ly nrow ncol.
Proof. destruct ly; simpl; intros; [apply rm_addr_range | apply vm_addr_range]; auto. Qed.

Lemma lay_addr_inj ly ncol r c r' c' :
  (match ly with Grouped L => 0 < L | RowMajor => True end) ->
  c < ncol -> c' < ncol -> lay_addr ly ncol r c = lay_addr ly ncol r' c' -> r = r' /\ c = c'.
Proof. destruct ly; simpl; intros; [eapply rm_addr_inj | eapply vm_addr_inj]; eauto. Qed.

From Model Require Import BaseProofs.
(* sequential point updates: each visited slot once *)
Section ApplyAt.
  Context {A : Type} (d : A).
  Lemma apply_at_length idxs g y : length (apply_at d idxs g y) = length y.
  Proof.
    revert y; induction idxs as [|i idxs IH]; intros y; simpl; auto.
    unfold apply_at in *. simpl. rewrite IH, upd_length; reflexivity.
  Qed.

  Lemma apply_at_miss idxs g y k : ~ In k idxs -> nth k (apply_at d idxs g y) d = nth k y d.
  Proof.
    revert y; induction idxs as [|i idxs IH]; intros y Hk; simpl; auto.
    unfold apply_at in *; simpl. rewrite IH by (simpl in Hk; tauto).
    apply nth_upd_neq. simpl in Hk; intros E; apply Hk; auto.
  Qed.

  Lemma apply_at_hit idxs g y k :
    NoDup idxs -> In k idxs -> k < length y -> nth k (apply_at d idxs g y) d = g k (nth k y d).
  Proof.
    revert y; induction idxs as [|i idxs IH]; intros y Hnd Hin Hlen; simpl in *; [tauto|].
    inversion Hnd; subst. unfold apply_at in *; simpl.
    destruct Hin as [->|Hin].
    - fold (apply_at d idxs g (upd k (g k (nth k y d)) y)). rewrite apply_at_miss by assumption.
      apply nth_upd_eq; auto.
    - rewrite IH; auto; [|rewrite upd_length; auto].
      rewrite nth_upd_neq; auto. intros E; subst; tauto.
  Qed.
End ApplyAt.

(* ---------- the slots visited by the "real rows" loops of VectorMatrix ---------- *)
Lemma vm_real_in L nrow ncol k :
  0 < L ->
  In k (vm_real L nrow ncol) <-> exists r c, r < nrow /\ c < ncol /\ k = vm_addr L ncol r c.
Proof.
  intros HL. unfold vm_real. rewrite in_app_iff, in_seq, in_grid.
  pose proof (Nat.div_mod nrow L ltac:(lia)) as En.
  pose proof (Nat.mod_upper_bound nrow L ltac:(lia)) as Hn.
  set (G := nrow / L) in *. set (m := nrow mod L) in *.
  split.
  - intros [[_ Hk]|[y [x [Hy [Hx E]]]]].
    + (* whole groups *)
      simpl in Hk.
      assert (Hnc : 0 < ncol) by (destruct ncol; [nia|lia]).
      pose proof (Nat.div_mod k L ltac:(lia)) as Ek.
      pose proof (Nat.mod_upper_bound k L ltac:(lia)) as Hl.
      set (q := k / L) in *. set (l := k mod L) in *.
      pose proof (Nat.div_mod q ncol ltac:(lia)) as Eq.
      pose proof (Nat.mod_upper_bound q ncol ltac:(lia)) as Hc.
      set (g := q / ncol) in *. set (c := q mod ncol) in *.
      assert (Hg : g < G).
      { destruct (Nat.lt_ge_cases g G) as [?|Hge]; auto. exfalso.
        assert (ncol * G <= ncol * g) by (apply Nat.mul_le_mono_l; lia).
        assert (L * (ncol * G) <= L * q) by (apply Nat.mul_le_mono_l; lia).
        assert (G * L * ncol = L * (ncol * G)) by ring. lia. }
      exists (g * L + l), c. split; [nia|]. split; [assumption|].
      unfold vm_addr.
      rewrite Nat.div_add_l by lia. rewrite (Nat.div_small l L) by assumption.
      rewrite Nat.add_comm with (n := g * L). rewrite Nat.mod_add by lia. rewrite Nat.mod_small by assumption.
      nia.
    + exists (G * L + x), y. split; [nia|]. split; [assumption|].
      unfold vm_addr.
      rewrite Nat.div_add_l by lia. rewrite (Nat.div_small x L) by lia.
      rewrite Nat.add_comm with (n := G * L). rewrite Nat.mod_add by lia. rewrite Nat.mod_small by lia.
      nia.
  - intros [r [c [Hr [Hc E]]]]. unfold vm_addr in E.
    pose proof (Nat.div_mod r L ltac:(lia)) as Er.
    pose proof (Nat.mod_upper_bound r L ltac:(lia)) as Hl.
    set (g := r / L) in *. set (l := r mod L) in *.
    assert (Hg : g <= G) by nia.
    destruct (Nat.eq_dec g G) as [EG|NG].
    + right. exists c, l. split; [assumption|]. split; [nia|nia].
    + left. simpl. split; [lia|]. assert (g * ncol + c + 1 <= G * ncol) by nia. nia.
Qed.

Lemma vm_real_NoDup L nrow ncol : 0 < L -> NoDup (vm_real L nrow ncol).
Proof.
  intros HL. unfold vm_real.
  pose proof (Nat.mod_upper_bound nrow L ltac:(lia)) as Hn.
  apply NoDup_app.
  - apply seq_NoDup.
  - apply NoDup_grid. intros y x y' x' Hy Hx Hy' Hx' E. assert (y = y') by nia. split; [assumption|nia].
  - intros v Hv Hv'. rewrite in_seq in Hv. rewrite in_grid in Hv'.
    destruct Hv' as [y [x [_ [_ E]]]]. simpl in Hv. lia.
Qed.

Lemma rm_all_in nrow ncol k :
  In k (rm_all nrow ncol) <-> exists r c, r < nrow /\ c < ncol /\ k = rm_addr ncol r c.
Proof.
  unfold rm_all, rm_size, rm_addr. rewrite in_seq. split.
  - intros [_ Hk]. simpl in Hk.
    assert (Hnc : 0 < ncol) by (destruct ncol; [nia|lia]).
    pose proof (Nat.div_mod k ncol ltac:(lia)) as Ek.
    pose proof (Nat.mod_upper_bound k ncol ltac:(lia)) as Hc.
    exists (k / ncol), (k mod ncol). split; [nia|]. split; [assumption|nia].
  - intros [r [c [Hr [Hc E]]]]. simpl. nia.
Qed.

Lemma lay_real_in ly nrow ncol k :
  (match ly with Grouped L => 0 < L | RowMajor => True end) ->
  In k (lay_real ly nrow ncol) <-> exists r c, r < nrow /\ c < ncol /\ k = lay_addr ly ncol r c.
Proof. destruct ly; simpl; intros; [apply rm_all_in | apply vm_real_in]; auto. Qed.

Lemma lay_real_NoDup ly nrow ncol :
  (match ly with Grouped L => 0 < L | RowMajor => True end) -> NoDup (lay_real ly nrow ncol).
Proof. destruct ly; simpl; intros; [apply seq_NoDup | apply vm_real_NoDup]; auto. Qed.

(* ---------- specifications on logical elements, for every layout ---------- *)
Section OpSpecs.
  Context {A : Type} (d : A).
  Variable ly : layout.
  Hypothesis Hly : match ly with Grouped L => 0 < L | RowMajor => True end.
  Variables nrow ncol : nat.

  (* a point-wise update over the real slots acts on every logical element exactly once
     and on nothing else (padding untouched) *)
  Lemma apply_real_logical g y r c :
    length y = lay_size ly nrow ncol -> r < nrow -> c < ncol ->
    mget d ly ncol (apply_at d (lay_real ly nrow ncol) g y) r c =
    g (lay_addr ly ncol r c) (mget d ly ncol y r c).
  Proof.
    intros Hlen Hr Hc. unfold mget. apply apply_at_hit.
    - apply lay_real_NoDup; auto.
    - apply lay_real_in; auto. exists r, c; auto.
    - rewrite Hlen. apply lay_addr_range; auto.
  Qed.

  Lemma apply_real_padding g y k :
    (forall r c, r < nrow -> c < ncol -> k <> lay_addr ly ncol r c) ->
    nth k (apply_at d (lay_real ly nrow ncol) g y) d = nth k y d.
  Proof.
    intros Hk. apply apply_at_miss. rewrite lay_real_in by auto.
    intros [r [c [Hr [Hc E]]]]. apply (Hk r c); auto.
  Qed.

  Theorem axpy_spec add mul alpha x y r c :
    length y = lay_size ly nrow ncol -> r < nrow -> c < ncol ->
    mget d ly ncol (axpy d add mul (lay_real ly nrow ncol) alpha x y) r c =
    add (mget d ly ncol y r c) (mul alpha (mget d ly ncol x r c)).
  Proof. intros; unfold axpy; rewrite apply_real_logical; auto. Qed.

  Theorem foreach2_spec f a y r c :
    length y = lay_size ly nrow ncol -> r < nrow -> c < ncol ->
    mget d ly ncol (foreach2 d f (lay_real ly nrow ncol) a y) r c =
    f (mget d ly ncol y r c) (mget d ly ncol a r c).
  Proof. intros; unfold foreach2; rewrite apply_real_logical; auto. Qed.

  Theorem foreach3_spec f a b y r c :
    length y = lay_size ly nrow ncol -> r < nrow -> c < ncol ->
    mget d ly ncol (foreach3 d f (lay_real ly nrow ncol) a b y) r c =
    f (mget d ly ncol y r c) (mget d ly ncol a r c) (mget d ly ncol b r c).
  Proof. intros; unfold foreach3; rewrite apply_real_logical; auto. Qed.

  Theorem map_all_spec f y r c :
    mget d ly ncol (map f y) r c =
    if lay_addr ly ncol r c <? length y then f (mget d ly ncol y r c) else d.
  Proof.
    unfold mget. destruct (Nat.ltb_spec (lay_addr ly ncol r c) (length y)) as [H|H].
    - rewrite (nth_indep _ d (f d)) by (rewrite map_length; auto). rewrite map_nth. reflexivity.
    - apply nth_overflow. rewrite map_length; auto.
  Qed.
End OpSpecs.
