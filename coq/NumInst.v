(* NumInst.v — executable numeric structures used by the correspondence check. *)
From Coq Require Import QArith.
From Model Require Import Base.

(* exact rationals, normalised after every operation *)
Definition NumQ : Num :=
  mkNum Q 0%Q 1%Q
        (fun a b => Qred (Qplus a b)) (fun a b => Qred (Qminus a b))
        (fun a b => Qred (Qmult a b)) (fun a b => Qred (Qdiv a b))
        (fun a => Qred (Qopp a)) (fun a => Qred (Qinv a)).

(* integers (used by the container probes) ; division is truncated, never used there *)
Definition NumZ : Num :=
  mkNum Z 0%Z 1%Z Z.add Z.sub Z.mul Z.quot Z.opp (fun a => a).

(* the prime field Z/p, p = 2^31 - 1 ; 0^-1 := 0 (as in the C++ Zp class) *)
Definition zp_p : Z := 2147483647%Z.
Fixpoint zp_pow_pos (a : Z) (e : positive) : Z :=
  match e with
  | xH => (a mod zp_p)%Z
  | xO e' => let h := zp_pow_pos a e' in ((h * h) mod zp_p)%Z
  | xI e' => let h := zp_pow_pos a e' in ((((h * h) mod zp_p) * a) mod zp_p)%Z
  end.
Definition zp_inv (a : Z) : Z := zp_pow_pos a 2147483645%positive.
Definition NumZp : Num :=
  mkNum Z 0%Z 1%Z
        (fun a b => ((a + b) mod zp_p)%Z) (fun a b => ((a - b) mod zp_p)%Z)
        (fun a b => ((a * b) mod zp_p)%Z) (fun a b => ((a * zp_inv b) mod zp_p)%Z)
        (fun a => ((- a) mod zp_p)%Z) zp_inv.
