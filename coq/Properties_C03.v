(* Properties_C03.v — C03: sparse LU factors reproduce A.
   Property theorems only; proofs in LUProofs.v. *)
From Model Require Import Base LU LUProofs NumInst.
From Coq Require Import Field ZArith.
Local Open Scope nat_scope.

(* For every field: a unit lower triangular L and an upper triangular U that satisfy the
   Doolittle defining equations
        U i k           = A i k - sum_{j<i} L i j U j k      (i <= k)
        L k i * U i i   = A k i - sum_{j<i} L k j U j i      (i <  k)
   satisfy L * U = A entry by entry.  All four algorithms of the library compute (in different
   orders and storage) values defined by exactly these equations, with structural zeros read as 0. *)
Theorem C03_defining_equations_give_LU_eq_A :
  forall (N : Num)
    (Nfield : field_theory (n0 N) (n1 N) (nadd N) (nmul N) (nsub N) (nopp N) (ndiv N) (ninv N) eq)
    n (A L U : nat -> nat -> T N),
    (forall i, i < n -> L i i = n1 N) ->
    (forall i j, i < j -> j < n -> L i j = n0 N) ->
    (forall i j, j < i -> i < n -> U i j = n0 N) ->
    (forall i k, i <= k -> k < n -> U i k = nsub N (A i k) (nsum N i (fun j => nmul N (L i j) (U j k)))) ->
    (forall i k, i < k -> k < n ->
       nmul N (L k i) (U i i) = nsub N (A k i) (nsum N i (fun j => nmul N (L k j) (U j i)))) ->
    forall r c, r < n -> c < n -> nsum N n (fun j => nmul N (L r j) (U j c)) = A r c.
Proof. exact LU_eq_A. Qed.
Print Assumptions C03_defining_equations_give_LU_eq_A.
