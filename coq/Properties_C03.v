(* Properties_C03.v — C03: sparse LU factors reproduce A.
   Property theorems only; proofs in LUProofs.v. *)
From Model Require Import Base LU LUProofs DoolittleProofs DoolittleIPProofs MozartIPProofs MozartProofs NumInst.
From Coq Require Import Field ZArith.
Local Open Scope nat_scope.

(* For every field: a unit lower triangular L and an upper triangular U that satisfy the
   Doolittle defining equations
        U i k           = A i k - sum_{j<i} L i j U j k      (i <= k)
        L k i * U i i   = A k i - sum_{j<i} L k j U j i      (i <  k)
   satisfy L * U = A entry by entry.  All four algorithms of the library compute (in different
   orders and storage) values defined by exactly these equations, with structural zeros read as 0. *)
Theorem C03_defining_equations_give_LU_eq_A :
  forall (N : Num)
    (Nfield : field_theory (n0 N) (n1 N) (nadd N) (nmul N) (nsub N) (nopp N) (ndiv N) (ninv N) eq)
    n (A L U : nat -> nat -> T N),
    (forall i, i < n -> L i i = n1 N) ->
    (forall i j, i < j -> j < n -> L i j = n0 N) ->
    (forall i j, j < i -> i < n -> U i j = n0 N) ->
    (forall i k, i <= k -> k < n -> U i k = nsub N (A i k) (nsum N i (fun j => nmul N (L i j) (U j k)))) ->
    (forall i k, i < k -> k < n ->
       nmul N (L k i) (U i i) = nsub N (A k i) (nsum N i (fun j => nmul N (L k j) (U j i)))) ->
    forall r c, r < n -> c < n -> nsum N n (fun j => nmul N (L r j) (U j c)) = A r c.
Proof. exact LU_eq_A. Qed.
Print Assumptions C03_defining_equations_give_LU_eq_A.

(* LuDecompositionDoolittle, both phases as coded (GetLUMatrices' fill-in loops; Initialize's stream construction
   fused with Decompose's replay): for every field, every size, every sparsity pattern, every matrix on that pattern
   and EVERY previous content of the L and U storage, the factors returned (structural zeros read as zero, the unit
   diagonal of L as stored) multiply to A, provided no pivot the algorithm divides by is zero.
   (C18_lu_decomposition transfers this to the JIT-generated function.) *)
Theorem C03_doolittle_factors_reproduce_A :
  forall (N : Num)
    (Nfield : field_theory (n0 N) (n1 N) (nadd N) (nmul N) (nsub N) (nopp N) (ndiv N) (ninv N) eq)
    n (A : mat N) (Ap : pat) (L0 U0 : mat N),
    let Lp := fst (doolittle_sym n Ap) in
    let Up := snd (doolittle_sym n Ap) in
    let LU := doolittle_num N n A Ap Lp Up L0 U0 in
    let Lf := fun r c => if c <? r then view N Lp (fst LU) r c else if c =? r then n1 N else n0 N in
    let Uf := fun r c => if r <=? c then view N Up (snd LU) r c else n0 N in
    (forall i, i < n -> snd LU i i <> n0 N) ->
    forall r c, r < n -> c < n -> nsum N n (fun j => nmul N (Lf r j) (Uf j c)) = view N Ap A r c.
Proof. exact doolittle_decomposition_correct. Qed.
Print Assumptions C03_doolittle_factors_reproduce_A.

(* the symbolic phase alone: the pattern it returns is closed under the fill-in rule, entry by entry *)
Theorem C03_doolittle_pattern_closed_under_fill_in :
  forall n (Ap : pat),
    let Lp := fst (doolittle_sym n Ap) in
    let Up := snd (doolittle_sym n Ap) in
    (forall i k, i <= k -> k < n ->
       Up i k = Ap i k || (k =? i) || existsb (fun j => Lp i j && Up j k) (seq 0 i)) /\
    (forall i k, i < k -> k < n ->
       Lp k i = Ap k i || existsb (fun j => Lp k j && Up j i) (seq 0 i)).
Proof. exact doolittle_sym_closed. Qed.
Print Assumptions C03_doolittle_pattern_closed_under_fill_in.

(* LuDecompositionDoolittleInPlace, both phases as coded: when the stored matrix holds A on A's pattern and zero in
   the fill-in slots (the documented contract of the in-place decomposition), the matrix left in place holds the
   unit-lower L below the diagonal and the upper U on and above it, with L*U = A, provided no pivot is zero *)
Theorem C03_doolittle_in_place_factors_reproduce_A :
  forall (N : Num)
    (Nfield : field_theory (n0 N) (n1 N) (nadd N) (nmul N) (nsub N) (nopp N) (ndiv N) (ninv N) eq)
    n (A : mat N) (Ap : pat) (M0 : mat N),
    let P := doolittle_ip_sym n Ap in
    (forall r c, r < n -> c < n -> P r c = true -> M0 r c = view N Ap A r c) ->
    let M := doolittle_ip_num N n P M0 in
    let Lf := fun r c => if c <? r then view N P M r c else if c =? r then n1 N else n0 N in
    let Uf := fun r c => if r <=? c then view N P M r c else n0 N in
    (forall i, i < n -> M i i <> n0 N) ->
    forall r c, r < n -> c < n -> nsum N n (fun j => nmul N (Lf r j) (Uf j c)) = view N Ap A r c.
Proof. exact doolittle_in_place_decomposition_correct. Qed.
Print Assumptions C03_doolittle_in_place_factors_reproduce_A.

(* LuDecompositionMozartInPlace (the right-looking, outer-product elimination), both phases as coded: for a pattern
   that contains the diagonal, a stored matrix holding A on A's pattern and zero in the fill-in slots, and no zero
   pivot, the matrix left in place holds L below the diagonal and U on and above it with L*U = A *)
Theorem C03_mozart_in_place_factors_reproduce_A :
  forall (N : Num)
    (Nfield : field_theory (n0 N) (n1 N) (nadd N) (nmul N) (nsub N) (nopp N) (ndiv N) (ninv N) eq)
    n (A : mat N) (Ap : pat) (M0 : mat N),
    (forall i, i < n -> Ap i i = true) ->
    let P := mozart_ip_sym n Ap in
    (forall r c, r < n -> c < n -> P r c = true -> M0 r c = view N Ap A r c) ->
    let M := mozart_ip_num N n P M0 in
    let Lf := fun r c => if c <? r then view N P M r c else if c =? r then n1 N else n0 N in
    let Uf := fun r c => if r <=? c then view N P M r c else n0 N in
    (forall i, i < n -> M i i <> n0 N) ->
    forall r c, r < n -> c < n -> nsum N n (fun j => nmul N (Lf r j) (Uf j c)) = view N Ap A r c.
Proof. exact mozart_in_place_decomposition_correct. Qed.
Print Assumptions C03_mozart_in_place_factors_reproduce_A.

(* LuDecompositionMozart (separate L and U: initial copies of A with explicit zeros in the fill-in, then the
   right-looking elimination split between the two matrices), both phases as coded, for every previous content of
   the L and U storage *)
Theorem C03_mozart_factors_reproduce_A :
  forall (N : Num)
    (Nfield : field_theory (n0 N) (n1 N) (nadd N) (nmul N) (nsub N) (nopp N) (ndiv N) (ninv N) eq)
    n (A : mat N) (Ap : pat) (L0 U0 : mat N),
    (forall i, i < n -> Ap i i = true) ->
    let Lp := fst (mozart_sym n Ap) in
    let Up := snd (mozart_sym n Ap) in
    let LU := mozart_num N n A Ap Lp Up L0 U0 in
    let Lf := fun r c => if c <? r then view N Lp (fst LU) r c else if c =? r then n1 N else n0 N in
    let Uf := fun r c => if r <=? c then view N Up (snd LU) r c else n0 N in
    (forall i, i < n -> snd LU i i <> n0 N) ->
    forall r c, r < n -> c < n -> nsum N n (fun j => nmul N (Lf r j) (Uf j c)) = view N Ap A r c.
Proof. exact mozart_decomposition_correct. Qed.
Print Assumptions C03_mozart_factors_reproduce_A.
