(* RosOrder.v — Rosenbrock coefficient tables in implementation form (a_, c_, m_, e_, alpha_,
   gamma_ of RosenbrockSolverParameters), their conversion back to the classical coefficients
   (alpha_ij, gamma_ij, b_i, bhat_i) and the Hairer–Wanner order conditions (Solving ODEs II,
   section IV.7, constant diagonal gamma_ii = gamma), all over exact rationals. *)
From Coq Require Import QArith Qabs List Lia NArith.
Import ListNotations.
Local Open Scope Q_scope.

Record ros_table := mkRosTable {
  rt_stages : nat;
  rt_a : list Q; rt_c : list Q; rt_m : list Q; rt_e : list Q;
  rt_alpha : list Q; rt_gamma : list Q;
  rt_newf : list bool;
  rt_elo : Q }.

Record ros_defaults := mkRosDefaults {
  rd_max_steps : N; rd_round_off : Q; rd_factor_min : Q; rd_factor_max : Q;
  rd_rejection_factor_decrease : Q; rd_safety_factor : Q; rd_h_min : Q; rd_h_max : Q; rd_h_start : Q }.

Definition qnth (l : list Q) (i : nat) : Q := nth i l 0.
Definition qsum (n : nat) (f : nat -> Q) : Q := fold_left (fun s i => Qred (s + f i)) (seq 0 n) 0.

(* packed strictly lower triangular storage: M(i,j), j < i, at index i(i-1)/2 + j (0-based) *)
Definition tri (l : list Q) (i j : nat) : Q :=
  if Nat.ltb j i then qnth l (i * (i - 1) / 2 + j) else 0.

Section Table.
  Variable t : ros_table.
  Let s := rt_stages t.
  Definition gam : Q := qnth (rt_gamma t) 0.            (* gamma_ii, the diagonal *)

  (* Gamma^-1 = diag(1/gamma) - C ; Gamma by forward substitution, column by column *)
  Definition ginv (i j : nat) : Q :=
    if Nat.eqb i j then Qred (1 / gam) else Qred (- tri (rt_c t) i j).

  (* G i j for j <= i, computed for rows 0..s-1 ; memoised as a list of rows *)
  Fixpoint gamma_rows (fuel : nat) (rows : list (list Q)) : list (list Q) :=
    match fuel with
    | O => rows
    | S f =>
      let i := length rows in
      (* X i j = (delta_ij - sum_{k<i} ginv i k * X k j) / ginv i i *)
      let row := map (fun j =>
                   let acc := qsum i (fun k => ginv i k * nth j (nth k rows []) 0) in
                   Qred (((if Nat.eqb i j then 1 else 0) - acc) / ginv i i)) (seq 0 s) in
      gamma_rows f (rows ++ [row])
    end.
  Definition Gamma : list (list Q) := gamma_rows s [].
  Definition g (i j : nat) : Q := nth j (nth i Gamma []) 0.                 (* gamma_ij *)

  (* everything below is computed once from Gamma and shared (lists of rows) *)
  Record coeffs := mkCoeffs {
    k_g : list (list Q); k_alpha : list (list Q); k_beta : list (list Q);
    k_b : list Q; k_bhat : list Q; k_alpha_i : list Q; k_beta_i : list Q; k_gamma_row : list Q }.

  Definition m2 (m : list (list Q)) (i j : nat) : Q := nth j (nth i m []) 0.

  Definition compute_coeffs : coeffs :=
    let G := Gamma in
    let gm := m2 G in
    let A := map (fun i => map (fun j => qsum s (fun k => tri (rt_a t) i k * gm k j)) (seq 0 s)) (seq 0 s) in
    let B := map (fun i => map (fun j => if Nat.ltb j i then Qred (m2 A i j + gm i j) else 0) (seq 0 s)) (seq 0 s) in
    mkCoeffs G A B
      (map (fun j => qsum s (fun i => qnth (rt_m t) i * gm i j)) (seq 0 s))
      (map (fun j => qsum s (fun i => (qnth (rt_m t) i - qnth (rt_e t) i) * gm i j)) (seq 0 s))
      (map (fun i => qsum i (fun j => m2 A i j)) (seq 0 s))
      (map (fun i => qsum i (fun j => m2 B i j)) (seq 0 s))
      (map (fun i => qsum (S i) (fun j => gm i j)) (seq 0 s)).

  Variable k : coeffs.
  Definition alpha (i j : nat) : Q := m2 (k_alpha k) i j.
  Definition beta (i j : nat) : Q := m2 (k_beta k) i j.
  Definition alpha_i (i : nat) : Q := qnth (k_alpha_i k) i.
  Definition beta_i (i : nat) : Q := qnth (k_beta_i k) i.
  Definition gamma_row (i : nat) : Q := qnth (k_gamma_row k) i.
  Definition b (j : nat) : Q := qnth (k_b k) j.
  Definition bhat (j : nat) : Q := qnth (k_bhat k) j.

  (* residuals of the order conditions for weights w (b or bhat) *)
  Definition res1 (w : nat -> Q) : Q := Qred (qsum s w - 1).
  Definition res2 (w : nat -> Q) : Q := Qred (qsum s (fun i => w i * beta_i i) - ((1 # 2) - gam)).
  Definition res3a (w : nat -> Q) : Q := Qred (qsum s (fun i => w i * alpha_i i * alpha_i i) - (1 # 3)).
  Definition res3b (w : nat -> Q) : Q :=
    Qred (qsum s (fun i => w i * qsum s (fun j => beta i j * beta_i j)) - ((1 # 6) - gam + gam * gam)).
  Definition res4a (w : nat -> Q) : Q := Qred (qsum s (fun i => w i * alpha_i i * alpha_i i * alpha_i i) - (1 # 4)).
  Definition res4b (w : nat -> Q) : Q :=
    Qred (qsum s (fun i => w i * alpha_i i * qsum s (fun j => alpha i j * beta_i j)) - ((1 # 8) - gam / 3)).
  Definition res4c (w : nat -> Q) : Q :=
    Qred (qsum s (fun i => w i * qsum s (fun j => beta i j * alpha_i j * alpha_i j)) - ((1 # 12) - gam / 3)).
  Definition res4d (w : nat -> Q) : Q :=
    Qred (qsum s (fun i => w i * qsum s (fun j => beta i j * qsum s (fun l => beta j l * beta_i l)))
          - ((1 # 24) - gam / 2 + (3 # 2) * gam * gam - gam * gam * gam)).

  Definition conditions (order : nat) (w : nat -> Q) : list Q :=
    (if Nat.leb 1 order then [res1 w] else []) ++
    (if Nat.leb 2 order then [res2 w] else []) ++
    (if Nat.leb 3 order then [res3a w; res3b w] else []) ++
    (if Nat.leb 4 order then [res4a w; res4b w; res4c w; res4d w] else []).

  Definition small (tol : Q) (x : Q) : bool := Qle_bool (Qabs x) tol.

  (* the method has order p: every condition up to p within tol *)
  Definition has_order (tol : Q) (p : nat) (w : nat -> Q) : bool := forallb (small tol) (conditions p w).
  (* ... and not p+1: some condition of order p+1 is violated by more than big *)
  Definition next_conditions (p : nat) (w : nat -> Q) : list Q :=
    match p with
    | 0%nat => [res1 w] | 1%nat => [res2 w] | 2%nat => [res3a w; res3b w]
    | 3%nat => [res4a w; res4b w; res4c w; res4d w] | _ => []
    end.
  Definition not_higher (big : Q) (p : nat) (w : nat -> Q) : bool :=
    existsb (fun x => negb (small big x)) (next_conditions p w).

  (* tabulated abscissae and row sums agree with the matrices *)
  Definition rows_consistent (tol : Q) : bool :=
    forallb (fun i => small tol (qnth (rt_alpha t) i - alpha_i i) && small tol (qnth (rt_gamma t) i - gamma_row i)) (seq 0 s).

  (* stability function at infinity: R(inf) = 1 - b^T B^-1 1, B = (beta_ij) with diagonal gamma *)
  Definition Bm (i j : nat) : Q := if Nat.eqb i j then gam else beta i j.
  Fixpoint binv_one (fuel : nat) (xs : list Q) : list Q :=
    match fuel with
    | O => xs
    | S f => let i := length xs in
             let acc := qsum i (fun l => Bm i l * nth l xs 0) in
             binv_one f (xs ++ [Qred ((1 - acc) / gam)])
    end.
  Definition R_inf (w : nat -> Q) : Q :=
    let xs := binv_one s [] in Qred (1 - qsum s (fun i => w i * nth i xs 0)).

  (* packed indexing used by the stage loop stays inside the 15-slot arrays *)
  Definition packed_in_range : bool :=
    forallb (fun i => forallb (fun j => Nat.ltb (i * (i - 1) / 2 + j) 15) (seq 0 i)) (seq 0 s) && Nat.leb s 6.
End Table.

Definition tol40 : Q := 1 # 1099511627776.   (* 2^-40 *)

(* the complete check of one table: documented order p for the main weights (exactly p when
   p < 4: the next order's conditions fail by more than 1e-3), order p-1 for the embedded
   weights, tabulated abscissae / row sums consistent, |R(inf)| <= rtol *)
Definition check_table (t : ros_table) (p : nat) (rtol : Q) : bool :=
  let k := compute_coeffs t in
  has_order t k tol40 p (b k) &&
  (if Nat.ltb p 4 then not_higher t k (1 # 1000) p (b k) else true) &&
  has_order t k tol40 (p - 1) (bhat k) &&
  not_higher t k (1 # 1000) (p - 1) (bhat k) &&
  rows_consistent t k tol40 &&
  small rtol (R_inf t k (b k)) &&
  packed_in_range t &&
  Qeq_bool (rt_elo t) (inject_Z (Z.of_nat p)).
