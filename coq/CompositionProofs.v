(* CompositionProofs.v — corollaries of the kernel theorems used by C09, C12, C13:
   cell locality, layout independence, conservation of linear invariants by the forcing. *)
From Model Require Import Base BaseProofs Dense DenseProofs Sparse ProcessSetM ProcessSetProofs ScatterProofs JacobianProofs.
From Coq Require Import Ring.
Local Open Scope nat_scope.

Section Locality.
  Variable N : Num.
  Notation T := (T N).

  Lemma forcing_slot_ext rxns (k k' y y' : nat -> T) s v0 :
    (forall i, k i = k' i) -> (forall id, y id = y' id) ->
    forcing_slot N rxns k y s v0 = forcing_slot N rxns k' y' s v0.
  Proof.
    intros Hk Hy. unfold forcing_slot. apply fold_left_ext_in. intros v [i rx] _. cbn [fst snd].
    rewrite Hk. rewrite (rate_of_ext N (k' i) (fst rx) y y') by (intros; apply Hy). reflexivity.
  Qed.

  (* C13: the forcing of cell c is a function of cell c's rate constants, concentrations and
     initial forcing only — whatever the other cells hold, in every layout, for any arithmetic *)
  Theorem forcing_cell_local (ly : layout) p ncells nspec nrxn rc y f rc' y' f' K Y F0 K' Y' F0' c s :
    layout_ok ly -> rxns_ids_lt N (ps_rxns N p) nspec -> length (ps_rxns N p) <= nrxn ->
    represents N ly ncells nrxn rc K -> represents N ly ncells nspec y Y -> represents N ly ncells nspec f F0 ->
    represents N ly ncells nrxn rc' K' -> represents N ly ncells nspec y' Y' -> represents N ly ncells nspec f' F0' ->
    c < ncells -> s < nspec ->
    (forall i, K c i = K' c i) -> (forall id, Y c id = Y' c id) -> F0 c s = F0' c s ->
    mget (n0 N) ly nspec (add_forcing N ly p ncells nspec nrxn rc y f) c s =
    mget (n0 N) ly nspec (add_forcing N ly p ncells nspec nrxn rc' y' f') c s.
  Proof.
    intros Hly Hids Hnr R1 R2 R3 R1' R2' R3' Hc Hs HK HY HF.
    rewrite (forcing_slot_any_layout N ly p ncells nspec nrxn rc y f K Y F0 c s); auto.
    rewrite (forcing_slot_any_layout N ly p ncells nspec nrxn rc' y' f' K' Y' F0' c s); auto.
    rewrite HF. apply forcing_slot_ext; assumption.
  Qed.

  (* C12: two layouts holding the same logical matrices give the same logical forcing *)
  Theorem forcing_layout_independent (ly1 ly2 : layout) p ncells nspec nrxn rc1 y1 f1 rc2 y2 f2 K Y F0 c s :
    layout_ok ly1 -> layout_ok ly2 -> rxns_ids_lt N (ps_rxns N p) nspec -> length (ps_rxns N p) <= nrxn ->
    represents N ly1 ncells nrxn rc1 K -> represents N ly1 ncells nspec y1 Y -> represents N ly1 ncells nspec f1 F0 ->
    represents N ly2 ncells nrxn rc2 K -> represents N ly2 ncells nspec y2 Y -> represents N ly2 ncells nspec f2 F0 ->
    c < ncells -> s < nspec ->
    mget (n0 N) ly1 nspec (add_forcing N ly1 p ncells nspec nrxn rc1 y1 f1) c s =
    mget (n0 N) ly2 nspec (add_forcing N ly2 p ncells nspec nrxn rc2 y2 f2) c s.
  Proof.
    intros. rewrite (forcing_slot_any_layout N ly1 p ncells nspec nrxn rc1 y1 f1 K Y F0 c s); auto.
    rewrite (forcing_slot_any_layout N ly2 p ncells nspec nrxn rc2 y2 f2 K Y F0 c s); auto.
  Qed.

  Lemma scatter_slot_ext f1 f2 (items : list (item N)) (k k' y y' : nat -> T) e v0 :
    (forall i, k i = k' i) -> (forall id, y id = y' id) ->
    scatter_slot N f1 f2 items k y e v0 = scatter_slot N f1 f2 items k' y' e v0.
  Proof.
    intros Hk Hy. unfold scatter_slot. apply fold_left_ext_in. intros v it _.
    rewrite Hk. rewrite (rate_of_ext N (k' (it_k N it)) (it_ids N it) y y') by (intros; apply Hy). reflexivity.
  Qed.

  (* the same two statements for the Jacobian elements *)
  Theorem jacobian_cell_local (ly : layout) p eids ncells nspec nrxn nnz rc y jac rc' y' jac' K Y J0 K' Y' J0' c e :
    layout_ok ly -> items_ok N (jac_items N p eids) nspec nrxn nnz ->
    represents N ly ncells nrxn rc K -> represents N ly ncells nspec y Y -> represents N ly ncells nnz jac J0 ->
    represents N ly ncells nrxn rc' K' -> represents N ly ncells nspec y' Y' -> represents N ly ncells nnz jac' J0' ->
    c < ncells -> e < nnz ->
    (forall i, K c i = K' c i) -> (forall id, Y c id = Y' c id) -> J0 c e = J0' c e ->
    mget (n0 N) ly nnz (sub_jacobian N ly p (map (fun e => e * stride ly) eids) ncells nspec nrxn nnz rc y jac) c e =
    mget (n0 N) ly nnz (sub_jacobian N ly p (map (fun e => e * stride ly) eids) ncells nspec nrxn nnz rc' y' jac') c e.
  Proof.
    intros Hly Hok R1 R2 R3 R1' R2' R3' Hc He HK HY HJ.
    rewrite (jac_slot_any_layout N ly p eids ncells nspec nrxn nnz rc y jac K Y J0 c e); auto.
    rewrite (jac_slot_any_layout N ly p eids ncells nspec nrxn nnz rc' y' jac' K' Y' J0' c e); auto.
    rewrite HJ. unfold jac_slot. apply scatter_slot_ext; assumption.
  Qed.

  Theorem jacobian_layout_independent (ly1 ly2 : layout) p eids ncells nspec nrxn nnz rc1 y1 j1 rc2 y2 j2 K Y J0 c e :
    layout_ok ly1 -> layout_ok ly2 -> items_ok N (jac_items N p eids) nspec nrxn nnz ->
    represents N ly1 ncells nrxn rc1 K -> represents N ly1 ncells nspec y1 Y -> represents N ly1 ncells nnz j1 J0 ->
    represents N ly2 ncells nrxn rc2 K -> represents N ly2 ncells nspec y2 Y -> represents N ly2 ncells nnz j2 J0 ->
    c < ncells -> e < nnz ->
    mget (n0 N) ly1 nnz (sub_jacobian N ly1 p (map (fun e => e * stride ly1) eids) ncells nspec nrxn nnz rc1 y1 j1) c e =
    mget (n0 N) ly2 nnz (sub_jacobian N ly2 p (map (fun e => e * stride ly2) eids) ncells nspec nrxn nnz rc2 y2 j2) c e.
  Proof.
    intros. rewrite (jac_slot_any_layout N ly1 p eids ncells nspec nrxn nnz rc1 y1 j1 K Y J0 c e); auto.
    rewrite (jac_slot_any_layout N ly2 p eids ncells nspec nrxn nnz rc2 y2 j2 K Y J0 c e); auto.
  Qed.
End Locality.

(* ---------------- C09: the forcing lies in the column space of the stoichiometric matrix ---------------- *)
Section Conservation.
  Variable N : Num.
  Notation T := (T N).
  Hypothesis Nring : ring_theory (n0 N) (n1 N) (nadd N) (nmul N) (nsub N) (nopp N) eq.
  Add Ring NumRingC : Nring.
  Notation "a +! b" := (nadd N a b) (at level 50, left associativity).
  Notation "a *! b" := (nmul N a b) (at level 40, left associativity).
  Notation sum := (nsum N).

  Lemma csum_add n f g : sum n (fun j => f j +! g j) = sum n f +! sum n g.
  Proof. induction n as [|n IH]; simpl; [ring|]. rewrite IH. ring. Qed.
  Lemma csum_scale_r n c f : sum n (fun j => f j *! c) = sum n f *! c.
  Proof. induction n as [|n IH]; simpl; [ring|]. rewrite IH. ring. Qed.
  Lemma csum_ext n f g : (forall j, j < n -> f j = g j) -> sum n f = sum n g.
  Proof. induction n as [|n IH]; simpl; intros H; [reflexivity|]. rewrite IH, H by auto. reflexivity. Qed.
  Lemma csum_zero n : sum n (fun _ => n0 N) = n0 N.
  Proof. induction n as [|n IH]; simpl; [reflexivity|]. rewrite IH. ring. Qed.

  (* w is a conservation law: for every reaction, sum_s w_s (yield_s - multiplicity_s) = 0 *)
  Definition conserves (nspec : nat) (w : nat -> T) (rx : rrxn N) : Prop :=
    sum nspec (fun s => w s *! stoich N rx s) = n0 N.

  Theorem forcing_conserves nspec (w : nat -> T) (l : list (nat * rrxn N)) k y :
    (forall irx, In irx l -> conserves nspec w (snd irx)) ->
    sum nspec (fun s => w s *! mass_action N l k y s) = n0 N.
  Proof.
    induction l as [|[i rx] l IH]; intros H; cbn [mass_action].
    - rewrite (csum_ext nspec _ (fun _ => n0 N)) by (intros; ring). apply csum_zero.
    - rewrite (csum_ext nspec _ (fun s => (w s *! stoich N rx s) *! (k i *! conc_product N (fst rx) y) +!
                                          w s *! mass_action N l k y s)) by (intros; ring).
      rewrite csum_add, csum_scale_r, IH by (intros; apply H; simpl; auto).
      rewrite (H (i, rx)) by (simpl; auto). ring.
  Qed.
End Conservation.
