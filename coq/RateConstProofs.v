(* RateConstProofs.v — each reaction gets the rate constant of its own parameters and cell
   conditions: for any arithmetic, both layouts, any cell count. *)
From Model Require Import Base BaseProofs Dense DenseProofs ProcessSetM ProcessSetProofs RateConst.
Local Open Scope nat_scope.

Section RCProofs.
  Variable N : Num.
  Notation T := (T N).
  Variable C : Type.
  Notation rproc := (rproc N C).

  Lemma slot_apply_const a (ops : list (op N)) x v :
    (forall o, In o ops -> fst o = a -> forall u, snd o u = x) ->
    slot_apply N a ops v = if existsb (fun o : op N => fst o =? a) ops then x else v.
  Proof.
    revert v; induction ops as [|o ops IH]; intros v H; cbn [slot_apply fold_left existsb]; [reflexivity|].
    fold (slot_apply N a ops (if fst o =? a then snd o v else v)).
    rewrite IH by (intros; apply H; simpl; auto).
    destruct (Nat.eqb_spec (fst o) a) as [E|NE]; cbn [orb].
    - rewrite (H o (or_introl eq_refl) E). destruct (existsb _ ops); reflexivity.
    - reflexivity.
  Qed.

  Lemma offsets_length (ps : list rproc) start : length (offsets_from N C start ps) = length ps.
  Proof. revert start; induction ps; intros; simpl; auto. Qed.

  Lemma in_combine3_gen (l : list rproc) r p off base start :
    In (r, (p, off)) (combine (seq base (length l)) (combine l (offsets_from N C start l))) ->
    base <= r /\ r < base + length l /\ nth_error l (r - base) = Some p /\
    nth_error (offsets_from N C start l) (r - base) = Some off.
  Proof.
    revert base start; induction l as [|p0 l IH]; intros base start H; simpl in H; [contradiction|].
    destruct H as [E|H].
    - inversion E; subst. rewrite Nat.sub_diag. simpl. repeat split; lia || reflexivity.
    - destruct (IH (S base) (start + rp_size N C p0) H) as [H1 [H2 [H3 H4]]].
      replace (r - base) with (S (r - S base)) by lia. simpl. repeat split; try lia; assumption.
  Qed.

  Lemma in_combine3 (ps : list rproc) r p off :
    In (r, (p, off)) (combine (seq 0 (length ps)) (combine ps (offsets N C ps))) ->
    r < length ps /\ nth_error ps r = Some p /\ nth_error (offsets N C ps) r = Some off.
  Proof.
    intros H. destruct (in_combine3_gen ps r p off 0 0 H) as [H1 [H2 [H3 H4]]].
    rewrite Nat.sub_0_r in H3, H4. repeat split; try lia; assumption.
  Qed.

  Lemma combine3_in_gen (l : list rproc) r p off base start :
    nth_error l r = Some p -> nth_error (offsets_from N C start l) r = Some off ->
    In (base + r, (p, off)) (combine (seq base (length l)) (combine l (offsets_from N C start l))).
  Proof.
    revert r base start; induction l as [|p0 l IH]; intros r base start H1 H2; destruct r as [|r]; simpl in *; try discriminate.
    - inversion H1; inversion H2; subst. left. f_equal. lia.
    - right. replace (base + S r) with (S base + r) by lia. apply IH; assumption.
  Qed.

  Lemma map_seq_shift {B} (f : nat -> B) off size : map f (seq off size) = map (fun i => f (off + i)) (seq 0 size).
  Proof.
    revert off; induction size as [|size IH]; intros off; [reflexivity|]. cbn [seq map].
    rewrite Nat.add_0_r. f_equal. rewrite IH, <- seq_shift, map_map.
    apply map_ext. intros i. f_equal. lia.
  Qed.

  (* a process's own parameter values, read from the row of the cell *)
  Definition own_params (Pm : nat -> nat -> T) (c off size : nat) : list T :=
    map (fun i => Pm c (off + i)) (seq 0 size).

  Section Association.
    Variable ps : list rproc.
    Variables ncells nparams : nat.
    Variable conds : nat -> C.
    Variables P rc : list T.
    Variable Pm : nat -> nat -> T.

    Lemma row_slice c off size :
      represents N RowMajor ncells nparams P Pm -> c < ncells -> off + size <= nparams ->
      firstn size (skipn off (map (fun k => nth (rm_addr nparams c k) P (n0 N)) (seq 0 nparams))) = own_params Pm c off size.
    Proof.
      intros [_ HP] Hc Hos. simpl in HP. unfold own_params.
      rewrite skipn_map, firstn_map.
      assert (E : firstn size (skipn off (seq 0 nparams)) = seq off size).
      { replace nparams with (off + (nparams - off)) by lia. rewrite seq_app, skipn_app, seq_length, Nat.sub_diag.
        rewrite skipn_all2 by (rewrite seq_length; lia). cbn [skipn app plus].
        replace (nparams - off) with (size + (nparams - off - size)) by lia.
        rewrite seq_app, firstn_app, seq_length, Nat.sub_diag, firstn_all2 by (rewrite seq_length; lia).
        cbn [firstn]. apply app_nil_r. }
      rewrite E, map_seq_shift. apply map_ext_in. intros i Hi. rewrite in_seq in Hi.
      apply HP; lia.
    Qed.

    Hypothesis Hlen_ps : 0 < length ps.

    (* row-major *)
    Theorem rc_association_rm c r p off :
      represents N RowMajor ncells nparams P Pm ->
      length rc = rm_size ncells (length ps) ->
      c < ncells -> nth_error ps r = Some p -> nth_error (offsets N C ps) r = Some off ->
      off + rp_size N C p <= nparams ->
      nth (rm_addr (length ps) c r) (calc_rate_constants N C RowMajor ps ncells nparams conds P rc) (n0 N) =
      rc_value N C p (conds c) (own_params Pm c off (rp_size N C p)).
    Proof.
      intros HP Hlen Hc Hp Hoff Hsz. cbn [calc_rate_constants].
      assert (Hr : r < length ps) by (apply nth_error_Some; congruence).
      rewrite run_ops_nth by (rewrite Hlen; apply rm_addr_range; auto).
      rewrite (slot_apply_const _ _ (rc_value N C p (conds c) (own_params Pm c off (rp_size N C p)))).
      - (* the slot is written *)
        match goal with |- (if ?b then _ else _) = _ => assert (Hb : b = true); [|rewrite Hb; reflexivity] end.
        apply existsb_exists.
        exists (rm_addr (length ps) c r,
                fun _ : T => rc_value N C p (conds c)
                   (firstn (rp_size N C p) (skipn off (map (fun k => nth (rm_addr nparams c k) P (n0 N)) (seq 0 nparams))))).
        split; [|apply Nat.eqb_refl].
        unfold rc_ops_rm. apply in_flat_map. exists c. split; [apply in_seq; lia|].
        apply in_map_iff. exists (r, (p, off)). split; [reflexivity|].
        apply (combine3_in_gen ps r p off 0 0); assumption.
      - (* every write to the slot writes that value *)
        intros o Ho Ea u. unfold rc_ops_rm in Ho. rewrite in_flat_map in Ho. destruct Ho as [c' [Hc' Ho]].
        rewrite in_map_iff in Ho. destruct Ho as [[r' [p' off']] [<- Hin]]. cbn [fst snd] in *.
        destruct (in_combine3 ps r' p' off' Hin) as [Hr' [Hp' Hoff']].
        apply rm_addr_inj in Ea; auto. destruct Ea as [-> ->].
        assert (p' = p) by congruence. assert (off' = off) by congruence. subst.
        rewrite in_seq in Hc'. rewrite (row_slice c off (rp_size N C p) HP); auto.
    Qed.

    (* grouped, any L > 0, any cell count (partial last group included) *)
    Theorem rc_association_vec L c r p off :
      0 < L ->
      represents N (Grouped L) ncells nparams P Pm ->
      length rc = vm_size L ncells (length ps) ->
      c < ncells -> nth_error ps r = Some p -> nth_error (offsets N C ps) r = Some off ->
      off + rp_size N C p <= nparams ->
      nth (vm_addr L (length ps) c r) (calc_rate_constants N C (Grouped L) ps ncells nparams conds P rc) (n0 N) =
      rc_value N C p (conds c) (own_params Pm c off (rp_size N C p)).
    Proof.
      intros HL HP Hlen Hc Hp Hoff Hsz. cbn [calc_rate_constants].
      assert (Hr : r < length ps) by (apply nth_error_Some; congruence).
      pose proof (Nat.div_mod c L ltac:(lia)) as Ec.
      pose proof (Nat.mod_upper_bound c L ltac:(lia)) as Hl.
      rewrite run_ops_nth by (rewrite Hlen; apply vm_addr_range; auto).
      assert (Hparams : forall g lane, g * L + lane = c -> lane < L ->
                map (fun i => nth (g * (L * nparams) + (off + i) * L + lane) P (n0 N)) (seq 0 (rp_size N C p)) =
                own_params Pm c off (rp_size N C p)).
      { intros g lane Egl Hlane. unfold own_params. apply map_ext_in. intros i Hi. rewrite in_seq in Hi.
        destruct HP as [_ HPv]. simpl in HPv. rewrite <- (HPv c (off + i)) by lia.
        f_equal. rewrite vm_addr_alt. subst c.
        rewrite Nat.div_add_l by lia. rewrite (Nat.div_small lane L) by assumption.
        rewrite Nat.add_comm with (n := g * L). rewrite Nat.mod_add by lia. rewrite Nat.mod_small by assumption. lia. }
      rewrite (slot_apply_const _ _ (rc_value N C p (conds c) (own_params Pm c off (rp_size N C p)))).
      - match goal with |- (if ?b then _ else _) = _ => assert (Hb : b = true); [|rewrite Hb; reflexivity] end.
        apply existsb_exists.
        exists (c / L * (L * length ps) + r * L + c mod L,
                fun _ : T => rc_value N C p (conds (c / L * L + c mod L))
                   (map (fun i => nth (c / L * (L * nparams) + (off + i) * L + c mod L) P (n0 N)) (seq 0 (rp_size N C p)))).
        split; [|rewrite vm_addr_alt; apply Nat.eqb_refl].
        unfold rc_ops_vec. apply in_flat_map. exists (c / L). split.
        { apply in_seq. split; [lia|]. apply ceil_div_gt; auto. }
        apply in_flat_map. exists (r, (p, off)). split; [apply (combine3_in_gen ps r p off 0 0); assumption|].
        apply in_map_iff. exists (c mod L). split; [reflexivity|].
        apply in_seq. split; [lia|]. cbn [plus]. apply Nat.min_glb_lt; [assumption|]. nia.
      - intros o Ho Ea u. unfold rc_ops_vec in Ho. rewrite in_flat_map in Ho. destruct Ho as [g [Hg Ho]].
        rewrite in_flat_map in Ho. destruct Ho as [[r' [p' off']] [Hin Ho]].
        rewrite in_map_iff in Ho. destruct Ho as [lane [<- Hlane]]. cbn [fst snd] in *.
        destruct (in_combine3 ps r' p' off' Hin) as [Hr' [Hp' Hoff']].
        rewrite in_seq in Hlane. assert (HlaneL : lane < L) by lia.
        (* the address is that of (cell g L + lane, reaction r') *)
        assert (Eaddr : g * (L * length ps) + r' * L + lane = vm_addr L (length ps) (g * L + lane) r').
        { rewrite vm_addr_alt. rewrite Nat.div_add_l by lia. rewrite (Nat.div_small lane L) by assumption.
          rewrite Nat.add_comm with (n := g * L). rewrite Nat.mod_add by lia. rewrite Nat.mod_small by assumption. lia. }
        rewrite Eaddr in Ea. apply vm_addr_inj in Ea; auto. destruct Ea as [Ecell ->].
        assert (p' = p) by congruence. assert (off' = off) by congruence. subst p' off'.
        rewrite Ecell. rewrite (Hparams g lane Ecell HlaneL). reflexivity.
    Qed.
  End Association.
End RCProofs.
