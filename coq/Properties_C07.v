(* Properties_C07.v — C07: step-size control honours the parameters.
   Proved here: the accept rule, for any policies and any history.  The controller formulas are
   the model's definitions (Rosenbrock.v: ros_iter, ros_solve), tied to the code exactly by the
   scripted-policy correspondence check; bounds on H are evaluated by the implementation oracle. *)
From Model Require Import Base Dense Rosenbrock IntegratorProofs ErrorNorm ErrorNormProofs.
From Coq Require Import List Permutation Ring.
Local Open Scope nat_scope.

(* an attempt is accepted iff its error norm is below 1 or H is already below h_min; a NaN or
   infinite norm is never accepted *)
Theorem C07_accept_iff_error_below_one_or_H_below_hmin :
  forall (N : Num) ltb leb nabs isnan isinf is_zero absorbed pow_inv ten delta_min
         (V M F : Type) vaxpy vzero mzero add_diag forcing negjac in_place factor_sep solve_sep factor_ip solve_ip nerr
         (p : params N) fuel time_step s,
    Forall (attempt_rule N ltb isnan isinf V M p)
      (r_trace (ros_solve N ltb leb nabs isnan isinf is_zero absorbed pow_inv ten delta_min V M F vaxpy vzero mzero
                          add_diag forcing negjac in_place factor_sep solve_sep factor_ip solve_ip nerr p fuel time_step s)).
Proof. exact ros_accept_iff. Qed.
Print Assumptions C07_accept_iff_error_below_one_or_H_below_hmin.

(* the slots NormalizedError / IsConverged visit, as coded (whole groups by running index with tolerance index
   (i / L) mod n; then the trailing partial group column by column), are exactly the real (cell, species) elements,
   each once, each with its own species' tolerance - for every vector length L, every cell count (multiples of L,
   a trailing partial group, fewer cells than lanes) and every species count *)
Theorem C07_error_norm_visits_every_element_once :
  forall ncells nspec, 0 < nspec ->
    Permutation (norm_slots RowMajor ncells nspec nspec) (logical_slots RowMajor ncells nspec) /\
    forall L, 0 < L -> Permutation (norm_slots (Grouped L) ncells nspec nspec) (logical_slots (Grouped L) ncells nspec).
Proof. intros ncells nspec Hn. split; [apply norm_slots_rowmajor; exact Hn | intros L HL; apply norm_slots_grouped; assumption]. Qed.
Print Assumptions C07_error_norm_visits_every_element_once.

(* hence, over a commutative ring, the error norm is the RMS over all cells and species of
   error / (atol_s + rtol * max(|y|, |y_new|)), floored at error_min (sqrt, abs, max are the caller's) *)
Theorem C07_error_norm_is_rms :
  forall (N : Num), ring_theory (n0 N) (n1 N) (nadd N) (nmul N) (nsub N) (nopp N) eq ->
  forall ltb nabs sqrt of_nat ly ncells nspec atol rtol error_min y ynew err,
    match ly with RowMajor => True | Grouped L => 0 < L end -> 0 < nspec -> length atol = nspec ->
    normalized_error N ltb nabs sqrt of_nat ly ncells nspec atol rtol error_min y ynew err =
    emax N ltb
      (sqrt (ndiv N
               (fold_left (fun s cs => let r := scaled N ltb nabs ly nspec atol rtol y ynew err cs in nadd N s (nmul N r r))
                          (list_prod (seq 0 ncells) (seq 0 nspec)) (n0 N))
               (of_nat (ncells * nspec))))
      error_min.
Proof. exact normalized_error_is_rms. Qed.
Print Assumptions C07_error_norm_is_rms.

(* backward Euler's convergence test looks at every real element with that species' tolerance *)
Theorem C07_is_converged_tests_every_element :
  forall (N : Num) ltb nabs ly ncells nspec atol rtol small resid yn1,
    match ly with RowMajor => True | Grouped L => 0 < L end -> 0 < nspec -> length atol = nspec ->
    (is_converged N ltb nabs ly ncells nspec atol rtol small resid yn1 = true <->
     forall c s, c < ncells -> s < nspec ->
       let i := lay_addr ly nspec c s in
       let r := nabs (nth i resid (n0 N)) in
       (ltb small r && ltb (nth s atol (n0 N)) r && ltb (nmul N rtol (nabs (nth i yn1 (n0 N)))) r) = false).
Proof. exact is_converged_tests_every_element. Qed.
Print Assumptions C07_is_converged_tests_every_element.

(* no new step is started once more than max_number_of_steps_ attempts have been made: wherever the trace of a Solve
   shows the start of a step (EvStep: the top of the outer loop was passed, the forcing and the Jacobian are about
   to be evaluated), at most max_number_of_steps_ attempts precede it - for every policy set and history *)
Theorem C07_no_step_after_max_number_of_steps :
  forall (N : Num) ltb leb nabs isnan isinf is_zero absorbed pow_inv ten delta_min
         (V M F : Type) vaxpy vzero mzero add_diag forcing negjac in_place factor_sep solve_sep factor_ip solve_ip nerr
         (p : params N) fuel time_step (s : rstate V M F) a t H b,
    r_trace (ros_solve N ltb leb nabs isnan isinf is_zero absorbed pow_inv ten delta_min V M F vaxpy vzero mzero
                       add_diag forcing negjac in_place factor_sep solve_sep factor_ip solve_ip nerr p fuel time_step s)
      = a ++ EvStep t H :: b ->
    length (filter (fun e => match e with EvAttempt _ _ _ _ _ _ => true | _ => false end) a) <= p_max_steps p.
Proof. exact ros_attempts_before_every_step. Qed.
Print Assumptions C07_no_step_after_max_number_of_steps.
