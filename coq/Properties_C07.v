(* Properties_C07.v — C07: step-size control honours the parameters.
   Proved here: the accept rule, for any policies and any history.  The controller formulas are
   the model's definitions (Rosenbrock.v: ros_iter, ros_solve), tied to the code exactly by the
   scripted-policy correspondence check; bounds on H are evaluated by the implementation oracle. *)
From Model Require Import Base Rosenbrock IntegratorProofs.
Local Open Scope nat_scope.

(* an attempt is accepted iff its error norm is below 1 or H is already below h_min; a NaN or
   infinite norm is never accepted *)
Theorem C07_accept_iff_error_below_one_or_H_below_hmin :
  forall (N : Num) ltb leb nabs isnan isinf is_zero absorbed pow_inv ten delta_min
         (V M F : Type) vaxpy vzero mzero add_diag forcing negjac in_place factor_sep solve_sep factor_ip solve_ip nerr
         (p : params N) fuel time_step s,
    Forall (attempt_rule N ltb isnan isinf V M p)
      (r_trace (ros_solve N ltb leb nabs isnan isinf is_zero absorbed pow_inv ten delta_min V M F vaxpy vzero mzero
                          add_diag forcing negjac in_place factor_sep solve_sep factor_ip solve_ip nerr p fuel time_step s)).
Proof. exact ros_accept_iff. Qed.
Print Assumptions C07_accept_iff_error_below_one_or_H_below_hmin.
