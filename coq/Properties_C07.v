(* Properties_C07.v — C07: step-size control honours the parameters.
   Proved here: the accept rule, for any policies and any history; no step start exceeds the remaining interval
   and a retry is never larger than the attempt before it (exact arithmetic, any rejection history).  The controller formulas are
   the model's definitions (Rosenbrock.v: ros_iter, ros_solve), tied to the code exactly by the
   scripted-policy correspondence check; bounds on H are evaluated by the implementation oracle. *)
From Model Require Import Base Dense Rosenbrock BackwardEulerM IntegratorProofs ErrorNorm ErrorNormProofs RosScratchProofs NumInst RosTimeQ.
From Coq Require Import List Permutation Ring QArith Qabs.
Local Open Scope nat_scope.

(* an attempt is accepted iff its error norm is below 1 or H is already below h_min; a NaN or
   infinite norm is never accepted *)
Theorem C07_accept_iff_error_below_one_or_H_below_hmin :
  forall (N : Num) ltb leb nabs isnan isinf is_zero absorbed pow_inv ten delta_min
         (V M F : Type) vaxpy vzero mzero add_diag forcing negjac in_place factor_sep solve_sep factor_ip solve_ip nerr
         (p : params N) fuel time_step s,
    Forall (attempt_rule N ltb isnan isinf V M p)
      (r_trace (ros_solve N ltb leb nabs isnan isinf is_zero absorbed pow_inv ten delta_min V M F vaxpy vzero mzero
                          add_diag forcing negjac in_place factor_sep solve_sep factor_ip solve_ip nerr p fuel time_step s)).
Proof. exact ros_accept_iff. Qed.
Print Assumptions C07_accept_iff_error_below_one_or_H_below_hmin.

(* the slots NormalizedError / IsConverged visit, as coded (whole groups by running index with tolerance index
   (i / L) mod n; then the trailing partial group column by column), are exactly the real (cell, species) elements,
   each once, each with its own species' tolerance - for every vector length L, every cell count (multiples of L,
   a trailing partial group, fewer cells than lanes) and every species count *)
Theorem C07_error_norm_visits_every_element_once :
  forall ncells nspec, 0 < nspec ->
    Permutation (norm_slots RowMajor ncells nspec nspec) (logical_slots RowMajor ncells nspec) /\
    forall L, 0 < L -> Permutation (norm_slots (Grouped L) ncells nspec nspec) (logical_slots (Grouped L) ncells nspec).
Proof. intros ncells nspec Hn. split; [apply norm_slots_rowmajor; exact Hn | intros L HL; apply norm_slots_grouped; assumption]. Qed.
Print Assumptions C07_error_norm_visits_every_element_once.

(* hence, over a commutative ring, the error norm is the RMS over all cells and species of
   error / (atol_s + rtol * max(|y|, |y_new|)), floored at error_min (sqrt, abs, max are the caller's) *)
Theorem C07_error_norm_is_rms :
  forall (N : Num), ring_theory (n0 N) (n1 N) (nadd N) (nmul N) (nsub N) (nopp N) eq ->
  forall ltb nabs sqrt of_nat ly ncells nspec atol rtol error_min y ynew err,
    match ly with RowMajor => True | Grouped L => 0 < L end -> 0 < nspec -> length atol = nspec ->
    normalized_error N ltb nabs sqrt of_nat ly ncells nspec atol rtol error_min y ynew err =
    emax N ltb
      (sqrt (ndiv N
               (fold_left (fun s cs => let r := scaled N ltb nabs ly nspec atol rtol y ynew err cs in nadd N s (nmul N r r))
                          (list_prod (seq 0 ncells) (seq 0 nspec)) (n0 N))
               (of_nat (ncells * nspec))))
      error_min.
Proof. exact normalized_error_is_rms. Qed.
Print Assumptions C07_error_norm_is_rms.

(* backward Euler's convergence test looks at every real element with that species' tolerance *)
Theorem C07_is_converged_tests_every_element :
  forall (N : Num) ltb nabs ly ncells nspec atol rtol small resid yn1,
    match ly with RowMajor => True | Grouped L => 0 < L end -> 0 < nspec -> length atol = nspec ->
    (is_converged N ltb nabs ly ncells nspec atol rtol small resid yn1 = true <->
     forall c s, c < ncells -> s < nspec ->
       let i := lay_addr ly nspec c s in
       let r := nabs (nth i resid (n0 N)) in
       (ltb small r && ltb (nth s atol (n0 N)) r && ltb (nmul N rtol (nabs (nth i yn1 (n0 N)))) r) = false).
Proof. exact is_converged_tests_every_element. Qed.
Print Assumptions C07_is_converged_tests_every_element.

(* no new step is started once more than max_number_of_steps_ attempts have been made: wherever the trace of a Solve
   shows the start of a step (EvStep: the top of the outer loop was passed, the forcing and the Jacobian are about
   to be evaluated), at most max_number_of_steps_ attempts precede it - for every policy set and history *)
Theorem C07_no_step_after_max_number_of_steps :
  forall (N : Num) ltb leb nabs isnan isinf is_zero absorbed pow_inv ten delta_min
         (V M F : Type) vaxpy vzero mzero add_diag forcing negjac in_place factor_sep solve_sep factor_ip solve_ip nerr
         (p : params N) fuel time_step (s : rstate V M F) a t H b,
    r_trace (ros_solve N ltb leb nabs isnan isinf is_zero absorbed pow_inv ten delta_min V M F vaxpy vzero mzero
                       add_diag forcing negjac in_place factor_sep solve_sep factor_ip solve_ip nerr p fuel time_step s)
      = a ++ EvStep t H :: b ->
    length (filter (fun e => match e with EvAttempt _ _ _ _ _ _ => true | _ => false end) a) <= p_max_steps p.
Proof. exact ros_attempts_before_every_step. Qed.
Print Assumptions C07_no_step_after_max_number_of_steps.

(* no attempt exceeds the remaining interval, and within a step the sizes never grow: walking the trace of any Solve
   (RosScratchProofs.sizes_ok), every step start EvStep t H has 0 <= t, 0 <= H <= time_step - t, and every attempt has
   0 <= H <= the size of the latest step start or attempt before it - hence H <= time_step - t for every attempt of
   the step started at t, after any number of rejections.  Exact arithmetic (any scalar structure embedding into
   ordered Q); premises as for C06_rosenbrock_final_time_within_the_interval.  sizes_ok is not trivially true:
   RosTimeQ.sizes_ok_discriminates. *)
Theorem C07_no_attempt_exceeds_the_remaining_interval :
  forall (N : Num) ltb leb nabs isnan isinf is_zero absorbed pow_inv ten delta_min
         (V M F : Type) vaxpy vzero mzero add_diag forcing negjac in_place factor_sep solve_sep factor_ip solve_ip nerr
         (p : params N) (phi : T N -> Q),
    (forall a b, phi (nadd N a b) == phi a + phi b)%Q ->
    (forall a b, phi (nsub N a b) == phi a - phi b)%Q ->
    (forall a b, phi (nmul N a b) == phi a * phi b)%Q ->
    (forall a b, ltb a b = true <-> (phi a < phi b)%Q) ->
    (forall a b, leb a b = true <-> (phi a <= phi b)%Q) ->
    (forall a, phi (nabs a) == Qabs (phi a))%Q ->
    (0 <= phi (p_round_off p))%Q ->
    (0 <= phi (p_factor_min p) /\ phi (p_factor_min p) <= 1)%Q ->
    (0 <= phi (p_factor_max p))%Q ->
    (0 <= phi (p_rej_dec p) /\ phi (p_rej_dec p) <= 1)%Q ->
    (forall err, ltb err (n1 N) = false -> (phi (ndiv N (p_safety p) (pow_inv err (p_elo p))) <= 1)%Q) ->
    forall fuel time_step (s : rstate V M F),
      (phi (n0 N) == 0)%Q -> (0 <= phi time_step)%Q ->
      sizes_ok N V M phi time_step 0%Q
        (r_trace (ros_solve N ltb leb nabs isnan isinf is_zero absorbed pow_inv ten delta_min V M F vaxpy vzero mzero
                            add_diag forcing negjac in_place factor_sep solve_sep factor_ip solve_ip nerr p fuel time_step s)).
Proof. exact ros_attempt_sizes_within_the_interval. Qed.
Print Assumptions C07_no_attempt_exceeds_the_remaining_interval.

(* read off the walk: every step start lies inside the interval and its size is at most what remains of it *)
Theorem C07_step_start_within_the_remaining_interval :
  forall (N : Num) ltb leb nabs isnan isinf is_zero absorbed pow_inv ten delta_min
         (V M F : Type) vaxpy vzero mzero add_diag forcing negjac in_place factor_sep solve_sep factor_ip solve_ip nerr
         (p : params N) (phi : T N -> Q),
    (forall a b, phi (nadd N a b) == phi a + phi b)%Q ->
    (forall a b, phi (nsub N a b) == phi a - phi b)%Q ->
    (forall a b, phi (nmul N a b) == phi a * phi b)%Q ->
    (forall a b, ltb a b = true <-> (phi a < phi b)%Q) ->
    (forall a b, leb a b = true <-> (phi a <= phi b)%Q) ->
    (forall a, phi (nabs a) == Qabs (phi a))%Q ->
    (0 <= phi (p_round_off p))%Q ->
    (0 <= phi (p_factor_min p) /\ phi (p_factor_min p) <= 1)%Q ->
    (0 <= phi (p_factor_max p))%Q ->
    (0 <= phi (p_rej_dec p) /\ phi (p_rej_dec p) <= 1)%Q ->
    (forall err, ltb err (n1 N) = false -> (phi (ndiv N (p_safety p) (pow_inv err (p_elo p))) <= 1)%Q) ->
    forall fuel time_step (s : rstate V M F) a t H r,
      (phi (n0 N) == 0)%Q -> (0 <= phi time_step)%Q ->
      r_trace (ros_solve N ltb leb nabs isnan isinf is_zero absorbed pow_inv ten delta_min V M F vaxpy vzero mzero
                         add_diag forcing negjac in_place factor_sep solve_sep factor_ip solve_ip nerr p fuel time_step s)
        = a ++ EvStep t H :: r ->
      (0 <= phi t /\ 0 <= phi H /\ phi H <= phi time_step - phi t)%Q.
Proof. exact ros_step_start_within_the_remaining_interval. Qed.
Print Assumptions C07_step_start_within_the_remaining_interval.

(* ... and an attempt is never larger than the step start or attempt before it (mid: the events between the two,
   none of which is a step start or an attempt), so the k-th retry of a step is at most the step's first size *)
Theorem C07_attempt_never_larger_than_the_one_before :
  forall (N : Num) ltb leb nabs isnan isinf is_zero absorbed pow_inv ten delta_min
         (V M F : Type) vaxpy vzero mzero add_diag forcing negjac in_place factor_sep solve_sep factor_ip solve_ip nerr
         (p : params N) (phi : T N -> Q),
    (forall a b, phi (nadd N a b) == phi a + phi b)%Q ->
    (forall a b, phi (nsub N a b) == phi a - phi b)%Q ->
    (forall a b, phi (nmul N a b) == phi a * phi b)%Q ->
    (forall a b, ltb a b = true <-> (phi a < phi b)%Q) ->
    (forall a b, leb a b = true <-> (phi a <= phi b)%Q) ->
    (forall a, phi (nabs a) == Qabs (phi a))%Q ->
    (0 <= phi (p_round_off p))%Q ->
    (0 <= phi (p_factor_min p) /\ phi (p_factor_min p) <= 1)%Q ->
    (0 <= phi (p_factor_max p))%Q ->
    (0 <= phi (p_rej_dec p) /\ phi (p_rej_dec p) <= 1)%Q ->
    (forall err, ltb err (n1 N) = false -> (phi (ndiv N (p_safety p) (pow_inv err (p_elo p))) <= 1)%Q) ->
    forall fuel time_step (s : rstate V M F) a e1 H mid H' e' ok' y yn ye r,
      (phi (n0 N) == 0)%Q -> (0 <= phi time_step)%Q ->
      r_trace (ros_solve N ltb leb nabs isnan isinf is_zero absorbed pow_inv ten delta_min V M F vaxpy vzero mzero
                         add_diag forcing negjac in_place factor_sep solve_sep factor_ip solve_ip nerr p fuel time_step s)
        = a ++ e1 :: mid ++ EvAttempt H' e' ok' y yn ye :: r ->
      size_of N V M e1 = Some H -> Forall (plain N V M) mid ->
      (0 <= phi H' /\ phi H' <= phi H)%Q.
Proof. exact ros_attempt_never_larger_than_the_one_before. Qed.
Print Assumptions C07_attempt_never_larger_than_the_one_before.

(* ... instantiated at the exact rationals the correspondence check computes with *)
Theorem C07_no_attempt_exceeds_the_remaining_interval_over_Q :
  forall isnan isinf is_zero absorbed (pow_inv : Q -> Q -> Q) ten delta_min
         (V M F : Type) vaxpy vzero mzero add_diag forcing negjac in_place factor_sep solve_sep factor_ip solve_ip nerr
         (p : params NumQ),
    (0 <= p_round_off p)%Q -> (0 <= p_factor_min p <= 1)%Q -> (0 <= p_factor_max p)%Q -> (0 <= p_rej_dec p <= 1)%Q ->
    (forall err, qlt err 1 = false -> (Qred (p_safety p / pow_inv err (p_elo p)) <= 1)%Q) ->
    forall fuel (time_step : Q) (s : rstate V M F), (0 <= time_step)%Q ->
      sizes_ok NumQ V M (fun x => x) time_step 0%Q
        (r_trace (ros_solve NumQ qlt qle Qabs isnan isinf is_zero absorbed pow_inv ten delta_min V M F vaxpy vzero mzero
                            add_diag forcing negjac in_place factor_sep solve_sep factor_ip solve_ip nerr p fuel time_step s)).
Proof. exact ros_attempt_sizes_within_the_interval_Q. Qed.
Print Assumptions C07_no_attempt_exceeds_the_remaining_interval_over_Q.

(* backward Euler: every step that advances the time - accepted (BeAccept t H) or accepted without convergence
   (BeUnconverged t H) - starts inside the interval and has 0 <= H <= time_step - t, and every Newton iteration and every
   rejected step uses 0 <= H <= time_step; any history of convergence failures, reductions and doublings; premises as for
   C06_backward_euler_final_time_within_the_interval (the initial clamp of h_start is the repair bba10e6) *)
Theorem C07_backward_euler_steps_within_the_remaining_interval :
  forall (N : Num) ltb is_zero (V M F : Type) vzero mzero add_diag forcing negjac in_place factor_sep solve_sep
         factor_ip solve_ip vresid vclamp_add is_converged two (p : be_params N) (phi : T N -> Q),
    (forall a b, phi (nadd N a b) == phi a + phi b)%Q ->
    (forall a b, phi (nsub N a b) == phi a - phi b)%Q ->
    (forall a b, phi (nmul N a b) == phi a * phi b)%Q ->
    (forall a b, ltb a b = true <-> (phi a < phi b)%Q) ->
    (phi (n0 N) == 0)%Q ->
    (0 <= phi (bp_h_start p))%Q ->
    (forall r, In r (bp_reductions p) -> (0 <= phi r)%Q) ->
    (0 <= phi two)%Q ->
    forall fuel time_step (s : bstate V M F),
      (0 <= phi time_step)%Q ->
      Forall (be_size_ok N V M phi time_step)
        (br_trace (be_solve N ltb is_zero V M F vzero mzero add_diag forcing negjac in_place factor_sep solve_sep factor_ip
                            solve_ip vresid vclamp_add is_converged two p fuel time_step s)).
Proof. exact be_step_sizes_within_the_interval. Qed.
Print Assumptions C07_backward_euler_steps_within_the_remaining_interval.

(* no step exceeds max(h_min, h_max'): with h_max' = min(time_step, h_max_) (time_step when h_max_ is 0) and the first
   step size as Solve computes them on entry (RosScratchProofs.solve_h_max, solve_first_H: ros_solve's own expressions),
   any bound B that lies above h_min, h_max' and the first step size lies above every step start and every attempt of
   the Solve, after any history - the controller never grows a step beyond max(h_min, h_max').  The premise on the
   first step size is what the known finding of this property is about: it fails only when the tiny-H guard replaces
   the first size by DELTA_MIN (h_max' <= 10 round_off). *)
Theorem C07_no_step_exceeds_h_max :
  forall (N : Num) ltb leb nabs isnan isinf is_zero absorbed pow_inv ten delta_min
         (V M F : Type) vaxpy vzero mzero add_diag forcing negjac in_place factor_sep solve_sep factor_ip solve_ip nerr
         (p : params N) (phi : T N -> Q),
    (forall a b, phi (nadd N a b) == phi a + phi b)%Q ->
    (forall a b, phi (nsub N a b) == phi a - phi b)%Q ->
    (forall a b, phi (nmul N a b) == phi a * phi b)%Q ->
    (forall a b, ltb a b = true <-> (phi a < phi b)%Q) ->
    (forall a b, leb a b = true <-> (phi a <= phi b)%Q) ->
    (forall a, phi (nabs a) == Qabs (phi a))%Q ->
    (0 <= phi (p_round_off p))%Q ->
    (0 <= phi (p_factor_min p) /\ phi (p_factor_min p) <= 1)%Q ->
    (0 <= phi (p_factor_max p))%Q ->
    (0 <= phi (p_rej_dec p) /\ phi (p_rej_dec p) <= 1)%Q ->
    (forall err, ltb err (n1 N) = false -> (phi (ndiv N (p_safety p) (pow_inv err (p_elo p))) <= 1)%Q) ->
    forall fuel time_step (s : rstate V M F) (B : Q),
      (phi (n0 N) == 0)%Q -> (0 <= phi time_step)%Q ->
      (phi (p_h_min p) <= B)%Q ->
      (phi (solve_h_max N ltb is_zero p time_step) <= B)%Q ->
      (phi (solve_first_H N ltb leb nabs is_zero ten delta_min p time_step) <= B)%Q ->
      Forall (bounded N V M phi B)
        (r_trace (ros_solve N ltb leb nabs isnan isinf is_zero absorbed pow_inv ten delta_min V M F vaxpy vzero mzero
                            add_diag forcing negjac in_place factor_sep solve_sep factor_ip solve_ip nerr p fuel time_step s)).
Proof. exact ros_sizes_bounded. Qed.
Print Assumptions C07_no_step_exceeds_h_max.
