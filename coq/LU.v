(* LU.v — the four sparse LU decompositions and the two linear solvers of micm, modelled at
   the level of logical matrix elements of one block:
     * symbolic phase (GetLUMatrices / GetLUMatrix): the fill-in patterns, loops as coded;
     * numeric phase: Initialize's loops (which decide what enters the index streams, through
       the same IsZero tests on the same patterns) fused with Decompose's replay (which
       performs one arithmetic operation per stream entry, in stream order).
   Not modelled here: the encoding of the streams as parallel arrays with counts, and the
   storage offset of an element (that is SparseProofs.v: the index is injective on the pattern).
   solver/lu_decomposition_{doolittle,mozart}{,_in_place}.inl, solver/linear_solver{,_in_place}.inl *)
From Model Require Export Base.
Local Open Scope nat_scope.

Section LU.
  Variable N : Num.
  Notation T := (T N).

  Definition mat := nat -> nat -> T.
  Definition pat := nat -> nat -> bool.
  Definition mset (m : mat) (r c : nat) (v : T) : mat :=
    fun r' c' => if (r' =? r) && (c' =? c) then v else m r' c'.
  Definition pset (p : pat) (r c : nat) : pat :=
    fun r' c' => ((r' =? r) && (c' =? c)) || p r' c'.
  Definition pempty : pat := fun _ _ => false.
  Definition range (a b : nat) : list nat := seq a (b - a).   (* a, a+1, ..., b-1 *)

  (* ---------------- symbolic phases ---------------- *)
  (* LuDecompositionDoolittle::GetLUMatrices *)
  Definition doolittle_sym (n : nat) (A : pat) : pat * pat :=
    fold_left (fun (LU : pat * pat) i =>
      let (Lp, Up) := LU in
      let Up' := fold_left (fun Up k =>
                   if A i k || (k =? i) then pset Up i k
                   else if existsb (fun j => Lp i j && Up j k) (seq 0 i) then pset Up i k else Up)
                 (range i n) Up in
      let Lp' := fold_left (fun Lp k =>
                   if A k i || (k =? i) then pset Lp k i
                   else if existsb (fun j => Lp k j && Up' j i) (seq 0 i) then pset Lp k i else Lp)
                 (range i n) Lp in
      (Lp', Up')) (seq 0 n) (pempty, pempty).

  (* LuDecompositionDoolittleInPlace::GetLUMatrix *)
  Definition doolittle_ip_sym (n : nat) (A : pat) : pat :=
    fold_left (fun (P : pat) i =>
      let P1 := fold_left (fun (P : pat) k =>
                   if A i k || (k =? i) then pset P i k
                   else if existsb (fun j => P i j && P j k) (seq 0 i) then pset P i k else P)
                 (range i n) P in
      fold_left (fun (P : pat) k =>
                   if A k i || (k =? i) then pset P k i
                   else if existsb (fun j => P k j && P j i) (seq 0 i) then pset P k i else P)
                 (range i n) P1) (seq 0 n) pempty.

  (* LuDecompositionMozart::GetLUMatrices *)
  Definition mozart_sym (n : nat) (A : pat) : pat * pat :=
    let LU1 := fold_left (fun (LU : pat * pat) i =>
      let (Lp, Up) := LU in
      let Up' := fold_left (fun Up j => if A i j then pset Up i j else Up) (range i n) Up in
      let Lp' := pset Lp i i in
      let Lp'' := fold_left (fun Lp j => if A i j then pset Lp i j else Lp) (seq 0 i) Lp' in
      (Lp'', Up')) (seq 0 n) (pempty, pempty) in
    fold_left (fun (LU : pat * pat) i =>
      let (Lp, Up) := LU in
      let Lp1 := fold_left (fun Lp j => if A j i then pset Lp j i else Lp) (range (i + 1) n) Lp in
      fold_left (fun (LU : pat * pat) k =>
        let (Lp, Up) := LU in
        if Up i k then
          let Up' := fold_left (fun Up j => if Lp j i then pset Up j k else Up) (range (i + 1) (k + 1)) Up in
          let Lp' := fold_left (fun (Lq : pat) j => if Lq j i then pset Lq j k else Lq) (range (k + 1) n) Lp in
          (Lp', Up')
        else (Lp, Up)) (range (i + 1) n) (Lp1, Up)) (seq 0 n) LU1.

  (* LuDecompositionMozartInPlace::GetLUMatrix *)
  Definition mozart_ip_sym (n : nat) (A : pat) : pat :=
    fold_left (fun (P : pat) i =>
      fold_left (fun (P : pat) k =>
        if P i k then fold_left (fun (P : pat) j => if P j i then pset P j k else P) (range (i + 1) n) P else P)
      (range (i + 1) n) P) (seq 0 n) (fun r c => (r <? n) && (c <? n) && A r c).

  (* ---------------- numeric phases ---------------- *)
  Notation "a -! b" := (nsub N a b) (at level 50, left associativity).
  Notation "a *! b" := (nmul N a b) (at level 40, left associativity).

  (* Doolittle, separate L and U.  A : values, Ap : pattern of A; L0, U0 : previous contents *)
  Definition doolittle_num (n : nat) (A : mat) (Ap Lp Up : pat) (L0 U0 : mat) : mat * mat :=
    fold_left (fun (LU : mat * mat) i =>
      let (L, U) := LU in
      (* upper triangular part: row i *)
      let U1 := fold_left (fun U k =>
        let js := filter (fun j => Lp i j && Up j k) (seq 0 i) in
        if negb (Ap i k) && (length js =? 0) && negb (k =? i) then U
        else
          let U' := mset U i k (if Ap i k then A i k else n0 N) in
          fold_left (fun U j => mset U i k (U i k -! L i j *! U j k)) js U')
        (range i n) U in
      (* lower triangular part: column i *)
      let L1 := mset L i i (n1 N) in
      let L2 := fold_left (fun L k =>
        let js := filter (fun j => Lp k j && Up j i) (seq 0 i) in
        if negb (Ap k i) && (length js =? 0) then L
        else
          let L' := mset L k i (if Ap k i then A k i else n0 N) in
          let L'' := fold_left (fun L j => mset L k i (L k i -! L k j *! U1 j i)) js L' in
          mset L'' k i (ndiv N (L'' k i) (U1 i i)))
        (range (i + 1) n) L1 in
      (L2, U1)) (seq 0 n) (L0, U0).

  (* Doolittle in place: M holds A on entry (fill-in slots must hold zero: the documented contract) *)
  Definition doolittle_ip_num (n : nat) (P : pat) (M0 : mat) : mat :=
    fold_left (fun M i =>
      let M1 := fold_left (fun M k =>
        if P i k then
          fold_left (fun M j => mset M i k (M i k -! M i j *! M j k))
                    (filter (fun j => P i j && P j k) (seq 0 i)) M
        else M) (range i n) M in
      fold_left (fun M k =>
        if P k i then
          let M' := fold_left (fun M j => mset M k i (M k i -! M k j *! M j i))
                              (filter (fun j => P k j && P j i) (seq 0 i)) M in
          mset M' k i (ndiv N (M' k i) (M' i i))
        else M) (range (i + 1) n) M1) (seq 0 n) M0.

  (* Mozart, separate L and U *)
  Definition mozart_num (n : nat) (A : mat) (Ap Lp Up : pat) (L0 U0 : mat) : mat * mat :=
    (* initial values: copies of A, unit diagonal of L ; then explicit zeros for the fill-in *)
    let LU1 := fold_left (fun (LU : mat * mat) i =>
      let (L, U) := LU in
      let U' := fold_left (fun U j => if Ap j i then mset U j i (A j i) else U) (seq 0 (i + 1)) U in
      let L' := mset L i i (n1 N) in
      let L'' := fold_left (fun L j => if Ap j i then mset L j i (A j i) else L) (range (i + 1) n) L' in
      (L'', U')) (seq 0 n) (L0, U0) in
    let U2 := fold_left (fun U i =>
                fold_left (fun U j => if negb (Ap j i) && Up j i then mset U j i (n0 N) else U) (seq 0 (i + 1)) U)
              (seq 0 n) (snd LU1) in
    let L2 := fold_left (fun L i =>
                fold_left (fun L j => if negb (Ap j i) && Lp j i then mset L j i (n0 N) else L) (range (i + 1) n) L)
              (seq 0 n) (fst LU1) in
    fold_left (fun (LU : mat * mat) i =>
      let (L, U) := LU in
      let inv := ndiv N (n1 N) (U i i) in
      let L1 := fold_left (fun L j => if Lp j i then mset L j i (L j i *! inv) else L) (range (i + 1) n) L in
      fold_left (fun (LU : mat * mat) k =>
        let (L, U) := LU in
        if Up i k then
          let U' := fold_left (fun U j => if Lp j i then mset U j k (U j k -! L j i *! U i k) else U)
                              (range (i + 1) (k + 1)) U in
          let L' := fold_left (fun (Lq : mat) j => if Lp j i then mset Lq j k (Lq j k -! Lq j i *! U' i k) else Lq)
                              (range (k + 1) n) L in
          (L', U')
        else (L, U)) (range (i + 1) n) (L1, U)) (seq 0 n) (L2, U2).

  (* Mozart in place *)
  Definition mozart_ip_num (n : nat) (P : pat) (M0 : mat) : mat :=
    fold_left (fun M i =>
      let inv := ndiv N (n1 N) (M i i) in
      let M1 := fold_left (fun M j => if P j i then mset M j i (M j i *! inv) else M) (range (i + 1) n) M in
      fold_left (fun M k =>
        if P i k then
          let aik := M i k in
          fold_left (fun M j => if P j i then mset M j k (M j k -! M j i *! aik) else M) (range (i + 1) n) M
        else M) (range (i + 1) n) M1) (seq 0 n) M0.

  (* ---------------- substitution ---------------- *)
  Definition vec := nat -> T.
  Definition vset (x : vec) (i : nat) (v : T) : vec := fun i' => if i' =? i then v else x i'.

  (* LinearSolver::Solve for one cell: forward substitution divides by L[i][i] *)
  Definition lin_solve (n : nat) (Lp Up : pat) (L U : mat) (b : vec) : vec :=
    let y := fold_left (fun x i =>
               let x' := fold_left (fun x j => if Lp i j then vset x i (x i -! L i j *! x j) else x) (seq 0 i) x in
               vset x' i (ndiv N (x' i) (L i i))) (seq 0 n) b in
    fold_left (fun x i =>
      let x' := fold_left (fun x j => if Up i j then vset x i (x i -! U i j *! x j) else x) (range (i + 1) n) x in
      vset x' i (ndiv N (x' i) (U i i))) (rev (seq 0 n)) y.

  (* LinearSolverInPlace::Solve: unit lower triangle implicit *)
  Definition lin_solve_ip (n : nat) (P : pat) (M : mat) (b : vec) : vec :=
    let y := fold_left (fun x i =>
               fold_left (fun x j => if P i j then vset x i (x i -! M i j *! x j) else x) (seq 0 i) x) (seq 0 n) b in
    fold_left (fun x i =>
      let x' := fold_left (fun x j => if P i j then vset x i (x i -! M i j *! x j) else x) (range (i + 1) n) x in
      vset x' i (ndiv N (x' i) (M i i))) (rev (seq 0 n)) y.
End LU.

(* helpers for building inputs from lists (used by the extracted driver and by examples) *)
Definition pat_of (l : list (nat * nat)) : nat -> nat -> bool :=
  fun r c => existsb (fun p => (fst p =? r) && (snd p =? c)) l.
Definition mat_of (N : Num) (l : list (nat * nat * T N)) : nat -> nat -> T N :=
  fun r c => match find (fun e => (fst (fst e) =? r) && (snd (fst e) =? c)) l with
             | Some e => snd e
             | None => n0 N
             end.
